#!/bin/bash
# compile the synthesized comma-decimal locale offline into /verif/build/locale/vf_COMMA
set -u
V=${VERIF_DIR:-$(cd "$(dirname "${BASH_SOURCE[0]}")/.." && pwd)}
out=$V/build/locale
mkdir -p "$out"
if [ -f "$out/vf_COMMA/LC_NUMERIC" ]; then exit 0; fi
localedef --no-archive -c -f "$V/locale/VF-ASCII.charmap" -i "$V/locale/vf_COMMA.src" "$out/vf_COMMA" >"$out/localedef.log" 2>&1
if [ ! -f "$out/vf_COMMA/LC_NUMERIC" ]; then
	echo "localedef failed; see $out/localedef.log" >&2
	tail -5 "$out/localedef.log" >&2
	exit 2
fi
