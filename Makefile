# harness objects per variant (json-c objects are built by scripts/build.sh from /repo's working tree)
VARIANT ?= asan
HV ?= $(VARIANT)
CXX ?= clang++
CC ?= clang
VDIR ?= /verif
B := $(VDIR)/build
OD := $(B)/h-$(HV)
CFGDIR ?= $(B)/cfg
REPO ?= /repo
CXXFLAGS := -std=c++17 -Wall -Wextra -Wno-unused-parameter -Wno-missing-field-initializers -Wno-unused-function $(HFLAGS) -I$(VDIR)/sim -I$(CFGDIR) -I$(REPO)

SIM_SRCS := $(wildcard sim/*.cpp)
PROP_SRCS := $(wildcard props/*.cpp)
ifeq ($(HV),thr)
C_SRCS := sim/simtsan.c
else
C_SRCS :=
endif
PROP_C_SRCS := $(wildcard props/*.c)
OBJS := $(patsubst props/%.c,$(OD)/cprop_%.o,$(PROP_C_SRCS)) $(patsubst sim/%.cpp,$(OD)/sim_%.o,$(SIM_SRCS)) $(patsubst props/%.cpp,$(OD)/prop_%.o,$(PROP_SRCS)) $(patsubst sim/%.c,$(OD)/c_%.o,$(C_SRCS))
HDRS := $(wildcard sim/*.h) $(wildcard props/*.h)

harness: $(OD) $(OBJS)
$(OD):
	mkdir -p $(OD)
$(OD)/sim_%.o: sim/%.cpp $(HDRS) $(CFGDIR)/json.h
	$(CXX) $(CXXFLAGS) -c $< -o $@
$(OD)/prop_%.o: props/%.cpp $(HDRS) $(CFGDIR)/json.h
	$(CXX) $(CXXFLAGS) -c $< -o $@
# harness parts that must be strict ISO C (they select the ANSI variants of json-c's public macros)
$(OD)/cprop_%.o: props/%.c $(HDRS) $(CFGDIR)/json.h
	$(CC) -std=c99 $(HFLAGS) -Wall -I$(CFGDIR) -I$(REPO) -c $< -o $@
$(OD)/c_%.o: sim/%.c $(HDRS)
	$(CC) -O1 -g -fno-omit-frame-pointer -Wall -c $< -o $@
.PHONY: harness
