// The simulator-owned seams: allocator front, fd layer, locale functions, seed source.
// All are link-time wrappers (-Wl,--wrap=...) around the symbols json-c references; /repo has no hooks.
#pragma once
#include <cstddef>
#include <cstdint>
#include <map>
#include <set>
#include <string>
#include <vector>
#include <locale.h>

// ---------------------------------------------------------------- "inside a library call" flag
extern thread_local int t_lib_active;
struct LibScope
{
	LibScope() { t_lib_active++; }
	~LibScope() { t_lib_active--; }
};
struct HarnessScope // used inside callbacks json-c makes into the harness
{
	int saved;
	HarnessScope() : saved(t_lib_active) { t_lib_active = 0; }
	~HarnessScope() { t_lib_active = saved; }
};
#define LIB(expr) ([&]() { LibScope _ls; return (expr); }())
#define LIBV(stmt) do { LibScope _ls; stmt; } while (0)

// ---------------------------------------------------------------- allocator
struct LiveRec
{
	uint64_t id;      // global allocation sequence number (stable id, never a raw pointer in logs)
	size_t size;
	int nframes;
	void *frames[8];
};
struct AllocSim
{
	// per-op fault script
	long op_count = 0;               // allocations requested inside library calls since begin_op()
	std::vector<long> fail_at;       // indices (relative to op_count) that must fail
	long fired = 0;                  // failures injected since begin_op()
	long cap_refused = 0;
	size_t cap = (size_t)64 << 20;   // finite capacity per request
	unsigned char junk = 0xbe;       // fresh memory handed to the library (malloc, grown part of realloc) is filled with this byte: reads of
	                                 // uninitialised memory become deterministic wrong values instead of whatever the heap held (varies per run)
	std::string last_fail_site;      // call-site chain of the last injected failure
	std::vector<std::string> fail_sites; // all injected failure sites since begin_op()
	// totals per run
	long total_allocs = 0, total_fired = 0, total_frees = 0;
	uint64_t next_id = 1;
	std::map<void *, LiveRec> live;  // allocations made inside library calls and not yet freed
	void (*free_hook)(void *) = nullptr; // called for every free() coming from inside a library call
	void (*alloc_hook)(void *) = nullptr; // called for every successful allocation made inside a library call
	bool record_sites = false;       // collect the call-site of every allocation (coverage of sites)
	std::set<std::string> sites_seen;
	void reset_run();
	void begin_op();                 // clears script and per-op counters
	std::string site_of(const LiveRec &r) const;
	std::string first_live_site() const;  // call-site chain of the OLDEST live allocation (by id: never by address, addresses differ between processes)
	std::string describe_live(size_t max = 4) const;
};
extern AllocSim g_alloc;

// resolve a code address to a function name using <exe>.sym; jsonc=true when json-c defines it
void symtab_load(const char *exe_path);
const char *sym_lookup(void *addr, bool *is_jsonc);
bool is_jsonc_func(const std::string &name);
std::string site_chain(void *const *frames, int n, int maxdepth = 3);

// ---------------------------------------------------------------- fd layer
struct SimFd
{
	bool open = false;
	bool rd = false, wr = false;
	std::string path;
	size_t pos = 0;
	int closes = 0;
	bool nonblock = false;   // opened with O_NONBLOCK: on a pipe-like descriptor the first read finds no data yet (EAGAIN), as a real FIFO would
	bool eagain_given = false;
};
struct FdSim
{
	std::map<std::string, std::string> files;  // path -> content (paths under /jsim/)
	std::map<int, SimFd> fds;
	int next_fd = 1000;
	std::vector<int64_t> script;   // per call: n>0 transfer at most n bytes, 0 = as much as asked, n<0 = fail with errno -n
	size_t script_pos = 0;
	int open_errno = 0;            // next open() of a simulated path fails with this errno
	bool as_fifo = false;          // fstat()/lseek() on simulated descriptors: regular file of the content's size (default) or a pipe (size 0, ESPIPE)
	long fstats = 0, lseeks = 0;
	bool lowest_free_is_zero = false; // the next open() of a simulated path returns descriptor 0 (the caller's stdin is closed)
	bool zero_is_sim = false;         // descriptor 0 currently names a simulated file
	// observations
	long reads = 0, writes = 0, opens = 0, closes = 0, injected = 0, bad_close = 0, eof_reads = 0;
	long short_xfers = 0, full_buffer_reads = 0;
	std::vector<std::string> events;
	void reset_run();
	int open_sim(const std::string &path, bool rd, bool wr, bool trunc, bool creat);
	int open_count() const;
};
extern FdSim g_fd;
bool is_sim_fd(int fd);

// ---------------------------------------------------------------- locale
struct LocSim
{
	long dup_calls = 0, new_calls = 0, free_calls = 0, use_calls = 0, setlocale_calls = 0;
	long fail_dup_at = -1, fail_new_at = -1; // index (per begin_op) of the call to fail with ENOMEM
	long fired = 0;
	std::set<locale_t> live_created;          // locale objects created inside library calls, not yet freed/consumed
	void reset_run();
	void begin_op();
};
extern LocSim g_loc;

// ---------------------------------------------------------------- seed source (arc4random)
struct SeedSim
{
	std::vector<uint32_t> queue; // values to hand out; when exhausted: derived from base
	size_t pos = 0;
	uint64_t base = 0x1234567;
	long calls = 0;
	void (*yield_hook)() = nullptr; // thread simulator: a seed request is a yield point
};
extern SeedSim g_seed;
