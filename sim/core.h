// Simulator core: run context (event log, coverage, counters, violation), property interface,
// driver (workers, determinism gate, shrinking, replay, evidence).
#pragma once
#include "plan.h"
#include "rng.h"
#include <cstdarg>
#include <map>
#include <set>
#include <string>
#include <vector>

enum Tier { QUICK = 0, THOROUGH = 1 };

struct Violation
{
	std::string cls;    // violation class, e.g. "C03:value-mismatch"
	std::string detail; // human readable
};

struct RunCtx
{
	uint64_t loghash = 1469598103934665603ULL;
	uint64_t nevents = 0;
	bool capture = false;            // keep the text of the event log (replay -v)
	std::vector<std::string> lines;
	std::set<std::string> cov;       // coverage keys reached by this run
	std::map<std::string, uint64_t> counters; // probes, fault fired/configured counts, logical steps
	bool nontrivial = false;
	bool failed = false;
	Violation v;
	// optional: when a run explores a fault space internally (fault enumeration), the failing fault attachment
	// for op `refine_op`; the driver rewrites the plan with it before shrinking so that the replay file is explicit
	int refine_op = -1;
	std::vector<Fault> refine_faults;
	// append to the event log (stable ids only; never raw pointers, clocks or PRNG draws)
	void log(const char *fmt, ...) __attribute__((format(printf, 2, 3)));
	void logs(const std::string &s);
	void cover(const std::string &key) { cov.insert(key); }
	void count(const std::string &key, uint64_t n = 1) { counters[key] += n; }
	void probe(const std::string &key) { counters["probe." + key] += 1; }
	// record a violation (first one wins) and unwind to the driver; never call from inside a json-c callback
	[[noreturn]] void fail(const std::string &cls, const char *fmt, ...) __attribute__((format(printf, 3, 4)));
	// record without unwinding (safe inside callbacks); the next check() unwinds
	void note_fail(const std::string &cls, const std::string &detail);
	void check() const;
};
struct ViolationUnwind
{
};

struct Property
{
	virtual ~Property() {}
	virtual const char *id() const = 0;
	virtual const char *report_id() const { return id(); } // property id used in VIOLATION lines (a check may consist of two batches)
	virtual const char *level() const = 0;       // "exploration" | "fault_enumeration"
	virtual const char *variant() const { return "asan"; } // which binary runs it
	virtual std::string rule() const = 0;        // evidence: how cases are generated, what is non-trivial/distinct
	virtual std::vector<std::string> assumptions() const { return {}; }
	virtual std::vector<std::string> probes() const { return {}; } // named rare conditions expected to be hit
	virtual std::vector<std::string> probes_expected_zero() const { return {}; }
	virtual std::vector<std::string> real_components() const;
	virtual std::vector<std::string> stub_components() const;
	virtual uint64_t runs(Tier t) const = 0;     // number of plans per tier
	virtual int time_cap_s(Tier t) const { return t == QUICK ? 150 : 1500; }
	virtual int recycle_every() const { return 0; } // worker process restarts after this many runs (0 = never)
	virtual bool fresh_process_per_run() const { return false; }
	virtual bool exhaustive(Tier) const { return false; }
	// generate plan number `index` of the batch from its own PRNG
	virtual Plan generate(Rng &rng, Tier t, uint64_t index) = 0;
	// execute; violations through ctx.fail()
	virtual void run(const Plan &p, RunCtx &ctx) = 0;
	// called once per process before the first run (process-level configuration, e.g. hash seed)
	virtual void process_init(uint64_t /*process_seed*/) {}
	// let the property stamp process-level configuration into the plan (so a fresh process can re-install it)
	virtual void stamp_process_cfg(Plan &) {}
	virtual void apply_process_cfg(const Plan &) {}
	// simpler values to try for configuration knobs while shrinking
	virtual std::map<std::string, int64_t> cfg_defaults() const { return {}; }
};

void register_property(Property *p);
Property *find_property(const std::string &id);
std::vector<Property *> &all_properties();
#define REGISTER_PROPERTY(cls) \
	static struct cls##_reg { cls##_reg() { register_property(new cls()); } } cls##_reg_inst;

struct Outcome
{
	bool violated = false;
	Violation v;
	uint64_t loghash = 0;
	uint64_t nevents = 0;
	bool nontrivial = false;
	std::set<std::string> cov;
	std::map<std::string, uint64_t> counters;
	std::vector<std::string> lines;
	int refine_op = -1;
	std::vector<Fault> refine_faults;
};
// run one plan in this process
Outcome execute_plan(Property &prop, const Plan &plan, bool capture = false);

// merge the outcome of a nested execution (e.g. fresh process) into the current run
void adopt_outcome(RunCtx &ctx, const Outcome &o);
// run one plan in a fresh process (exec of this binary in replay mode) and bring back outcome, coverage and counters;
// for properties that depend on process-wide once-only state (e.g. the hash seed race)
bool execute_plan_fresh_process(Property &prop, const Plan &plan, Outcome &out);

int driver_main(int argc, char **argv);
extern const char *g_exe_path;
