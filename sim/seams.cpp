#include "seams.h"
#include <sys/stat.h>
#include <unistd.h>
#include <algorithm>
#include <cerrno>
#include <cstdarg>
#include <cstdio>
#include <cstdlib>
#include <cstring>
#include <fcntl.h>
#include <pthread.h>
#include <unistd.h>

#ifdef JSIM_THR
#include "simtsan.h"
#include <malloc.h>
#define THR_YIELD() simthr_yield(1)
#define THR_ALLOC(p, n) simthr_on_alloc((p), (p) ? malloc_usable_size(p) : (size_t)(n)) /* the whole usable block: free() later covers it all */
#else
#define THR_YIELD() ((void)0)
#define THR_ALLOC(p, n) ((void)0)
#endif
thread_local int t_lib_active = 0;
AllocSim g_alloc;
FdSim g_fd;
LocSim g_loc;
SeedSim g_seed;

extern "C" {
void *__real_malloc(size_t);
void *__real_calloc(size_t, size_t);
void *__real_realloc(void *, size_t);
void __real_free(void *);
ssize_t __real_read(int, void *, size_t);
ssize_t __real_write(int, const void *, size_t);
int __real_open(const char *, int, ...);
int __real_close(int);
locale_t __real_uselocale(locale_t);
locale_t __real_newlocale(int, const char *, locale_t);
locale_t __real_duplocale(locale_t);
void __real_freelocale(locale_t);
char *__real_setlocale(int, const char *);
uint32_t __real_arc4random(void);
int __real_fstat(int, struct stat *);
int __real_fstat64(int, struct stat64 *);
off_t __real_lseek(int, off_t, int);
off64_t __real_lseek64(int, off64_t, int);
}

// ------------------------------------------------------------------ symbol table
struct SymEnt
{
	uintptr_t addr;
	std::string name;
	bool jsonc;
};
static std::vector<SymEnt> g_syms;
static std::set<std::string> g_jcnames;
bool is_jsonc_func(const std::string &name) { return g_jcnames.count(name) > 0; }
void symtab_load(const char *exe_path)
{
	std::string sp = std::string(exe_path) + ".sym", jp = std::string(exe_path) + ".jcfuncs";
	std::set<std::string> jc;
	FILE *f = fopen(jp.c_str(), "r");
	char line[1024];
	if (f)
	{
		while (fgets(line, sizeof line, f))
		{
			size_t n = strlen(line);
			while (n && (line[n - 1] == '\n' || line[n - 1] == ' '))
				line[--n] = 0;
			if (n)
				jc.insert(line);
		}
		fclose(f);
	}
	g_jcnames = jc;
	f = fopen(sp.c_str(), "r");
	if (!f)
		return;
	while (fgets(line, sizeof line, f))
	{
		char name[900];
		unsigned long long a;
		if (sscanf(line, "%llx %899s", &a, name) == 2)
			g_syms.push_back({(uintptr_t)a, name, jc.count(name) > 0});
	}
	fclose(f);
	std::sort(g_syms.begin(), g_syms.end(), [](const SymEnt &x, const SymEnt &y) { return x.addr < y.addr; });
}
const char *sym_lookup(void *addr, bool *is_jsonc)
{
	uintptr_t a = (uintptr_t)addr;
	if (is_jsonc)
		*is_jsonc = false;
	if (g_syms.empty() || a < g_syms.front().addr)
		return nullptr;
	size_t lo = 0, hi = g_syms.size();
	while (hi - lo > 1)
	{
		size_t mid = (lo + hi) / 2;
		if (g_syms[mid].addr <= a)
			lo = mid;
		else
			hi = mid;
	}
	if (a - g_syms[lo].addr > (1u << 20))
		return nullptr;
	if (is_jsonc)
		*is_jsonc = g_syms[lo].jsonc;
	return g_syms[lo].name.c_str();
}
std::string site_chain(void *const *frames, int n, int maxdepth)
{
	std::string s;
	int got = 0;
	for (int i = 0; i < n && got < maxdepth; i++)
	{
		bool jc = false;
		const char *nm = sym_lookup((void *)((uintptr_t)frames[i] - 1), &jc);
		if (!nm || !jc)
		{
			if (got)
				break; // left json-c: stop at the API boundary
			continue;
		}
		if (got)
			s += "<";
		s += nm;
		got++;
	}
	return s.empty() ? std::string("?") : s;
}

// frame-pointer walk (all our code and json-c are built with -fno-omit-frame-pointer)
static thread_local uintptr_t t_stack_lo = 0, t_stack_hi = 0;
static void stack_bounds()
{
	pthread_attr_t at;
	void *addr = nullptr;
	size_t sz = 0;
	if (pthread_getattr_np(pthread_self(), &at) == 0)
	{
		pthread_attr_getstack(&at, &addr, &sz);
		pthread_attr_destroy(&at);
	}
	t_stack_lo = (uintptr_t)addr;
	t_stack_hi = (uintptr_t)addr + sz;
}
static int fp_walk(void **out, int max)
{
	if (!t_stack_hi)
		stack_bounds();
	void **fp = (void **)__builtin_frame_address(0);
	int n = 0;
	while (n < max)
	{
		uintptr_t p = (uintptr_t)fp;
		if (p < t_stack_lo || p + 16 > t_stack_hi || (p & 7))
			break;
		void *ret = fp[1];
		void **next = (void **)fp[0];
		if (!ret)
			break;
		out[n++] = ret;
		if (next <= fp)
			break;
		fp = next;
	}
	return n;
}

// ------------------------------------------------------------------ allocator
void AllocSim::reset_run()
{
	op_count = fired = cap_refused = 0;
	fail_at.clear();
	last_fail_site.clear();
	fail_sites.clear();
	total_allocs = total_fired = total_frees = 0;
	next_id = 1;
	live.clear();
	free_hook = nullptr;
	alloc_hook = nullptr;
	cap = (size_t)64 << 20;
}
void AllocSim::begin_op()
{
	op_count = 0;
	fired = 0;
	cap_refused = 0;
	fail_at.clear();
	last_fail_site.clear();
	fail_sites.clear();
}
std::string AllocSim::site_of(const LiveRec &r) const { return site_chain(r.frames, r.nframes); }
std::string AllocSim::first_live_site() const
{
	const LiveRec *best = nullptr;
	for (auto &kv : live)
		if (!best || kv.second.id < best->id)
			best = &kv.second;
	return best ? site_of(*best) : std::string("?");
}
std::string AllocSim::describe_live(size_t max) const
{
	std::vector<const LiveRec *> v;
	for (auto &kv : live)
		v.push_back(&kv.second);
	std::sort(v.begin(), v.end(), [](const LiveRec *a, const LiveRec *b) { return a->id < b->id; });
	std::string s;
	size_t n = 0;
	for (auto *r : v)
	{
		if (n++ >= max)
		{
			s += " ...";
			break;
		}
		char b[64];
		snprintf(b, sizeof b, " #%llu(%zu bytes)@", (unsigned long long)r->id, r->size);
		s += b;
		s += site_of(*r);
	}
	return s;
}

// decide about one allocation request made inside a library call; returns true if it must fail
static bool alloc_decide(size_t size)
{
	AllocSim &A = g_alloc;
	long k = A.op_count++;
	A.total_allocs++;
	bool fail = false;
	for (long f : A.fail_at)
		if (f == k)
			fail = true;
	bool capfail = !fail && size > A.cap;
	if (fail || capfail || A.record_sites)
	{
		void *fr[10];
		int n = fp_walk(fr, 10);
		std::string site = site_chain(fr, n);
		if (A.record_sites)
			A.sites_seen.insert(site);
		if (fail)
		{
			A.fired++;
			A.total_fired++;
			A.last_fail_site = site;
			A.fail_sites.push_back(site);
		}
	}
	if (capfail)
		A.cap_refused++;
	return fail || capfail;
}
static void live_add(void *p, size_t size)
{
	LiveRec r;
	r.id = g_alloc.next_id++;
	r.size = size;
	r.nframes = fp_walk(r.frames, 8);
	g_alloc.live[p] = r;
	if (g_alloc.alloc_hook)
		g_alloc.alloc_hook(p);
}
static bool live_del(void *p)
{
	auto it = g_alloc.live.find(p);
	if (it == g_alloc.live.end())
		return false;
	g_alloc.live.erase(it);
	return true;
}

extern "C" {
void *__wrap_malloc(size_t n)
{
	if (!t_lib_active)
	{
		void *q = __real_malloc(n);
		THR_ALLOC(q, n); // json-c called by the harness outside a library scope (dumps): still fresh memory for the race detector
		return q;
	}
	int sv = t_lib_active;
	t_lib_active = 0;
	THR_YIELD();
	void *p = nullptr;
	if (alloc_decide(n))
		errno = ENOMEM;
	else if ((p = __real_malloc(n)))
	{
		memset(p, g_alloc.junk, n);
		live_add(p, n);
		THR_ALLOC(p, n);
	}
	t_lib_active = sv;
	return p;
}
void *__wrap_calloc(size_t a, size_t b)
{
	if (!t_lib_active)
	{
		void *q = __real_calloc(a, b);
		THR_ALLOC(q, a * b);
		return q;
	}
	int sv = t_lib_active;
	t_lib_active = 0;
	void *p = nullptr;
	size_t tot = 0;
	bool ovf = __builtin_mul_overflow(a, b, &tot);
	if (alloc_decide(ovf ? (size_t)-1 : tot))
		errno = ENOMEM;
	else if ((p = __real_calloc(a, b)))
	{
		live_add(p, tot);
		THR_ALLOC(p, tot);
	}
	t_lib_active = sv;
	return p;
}
void *__wrap_realloc(void *old, size_t n)
{
	if (!t_lib_active)
	{
		// e.g. the harness serialises a tree outside a library scope and json-c grows a tracked print buffer
		bool was_live = old && !g_alloc.live.empty() && g_alloc.live.count(old);
		void *q = __real_realloc(old, n);
		if (q && was_live)
		{
			live_del(old);
			live_add(q, n);
		}
		THR_ALLOC(q, n);
		return q;
	}
	int sv = t_lib_active;
	t_lib_active = 0;
	void *p = nullptr;
	if (alloc_decide(n))
		errno = ENOMEM; // old block stays valid and live
	else
	{
		bool was_live = old && g_alloc.live.count(old);
		size_t old_size = was_live ? g_alloc.live[old].size : (old ? n : 0);
#ifdef JSIM_THR
		if (simthr_active() && old)
		{
			// never hand a block back to libc while threads are being simulated: an address must not change owner within a run
			p = __real_malloc(n);
			if (p)
			{
				size_t oldn = malloc_usable_size(old);
				memcpy(p, old, oldn < n ? oldn : n);
				if (!simthr_on_free(old, oldn))
					__real_free(old);
			}
		}
		else
#endif
		p = __real_realloc(old, n);
		if (p)
		{
			if (n > old_size)
				memset((char *)p + old_size, g_alloc.junk, n - old_size);
			if (was_live)
				live_del(old);
			if (was_live || !old)
				live_add(p, n);
			THR_ALLOC(p, n);
		}
	}
	t_lib_active = sv;
	return p;
}
void __wrap_free(void *p)
{
	if (!p)
		return;
	if (t_lib_active)
	{
		int sv = t_lib_active;
		t_lib_active = 0;
		g_alloc.total_frees++;
		if (g_alloc.free_hook)
			g_alloc.free_hook(p);
		live_del(p);
#ifdef JSIM_THR
		THR_YIELD();
		if (simthr_on_free(p, malloc_usable_size(p)))
		{
			t_lib_active = sv;
			return; // quarantined until the end of the simulated run: later accesses are use-after-free reports
		}
#endif
		t_lib_active = sv;
	}
	else if (!g_alloc.live.empty())
		live_del(p); // the harness releasing something the library handed out (e.g. nothing today)
	__real_free(p);
}
// strdup / vasprintf re-implemented on top of the wrapped malloc so that their allocation is injectable
char *__wrap_strdup(const char *s)
{
	size_t n = strlen(s) + 1;
	char *p = (char *)__wrap_malloc(n);
	if (p)
		memcpy(p, s, n);
	return p;
}
int __wrap_vasprintf(char **out, const char *fmt, va_list ap)
{
	va_list ap2;
	va_copy(ap2, ap);
	int n = vsnprintf(nullptr, 0, fmt, ap2);
	va_end(ap2);
	if (n < 0)
	{
		*out = nullptr;
		return -1;
	}
	char *p = (char *)__wrap_malloc((size_t)n + 1);
	if (!p)
	{
		*out = nullptr;
		return -1;
	}
	vsnprintf(p, (size_t)n + 1, fmt, ap);
	*out = p;
	return n;
}
}

// ------------------------------------------------------------------ fd layer
void FdSim::reset_run()
{
	files.clear();
	fds.clear();
	next_fd = 1000;
	script.clear();
	script_pos = 0;
	open_errno = 0;
	as_fifo = false;
	lowest_free_is_zero = zero_is_sim = false;
	fstats = lseeks = 0;
	reads = writes = opens = closes = injected = bad_close = eof_reads = short_xfers = full_buffer_reads = 0;
	events.clear();
}
int FdSim::open_sim(const std::string &path, bool rd, bool wr, bool trunc, bool creat)
{
	auto it = files.find(path);
	if (it == files.end())
	{
		if (!creat)
		{
			errno = ENOENT;
			return -1;
		}
		files[path] = "";
	}
	else if (trunc)
		it->second.clear();
	int fd = next_fd++;
	if (lowest_free_is_zero && !fds.count(0))
	{
		fd = 0;
		next_fd--;
		zero_is_sim = true;
	}
	SimFd f;
	f.open = true;
	f.rd = rd;
	f.wr = wr;
	f.path = path;
	fds[fd] = f;
	return fd;
}
int FdSim::open_count() const
{
	int n = 0;
	for (auto &kv : fds)
		n += kv.second.open;
	return n;
}
bool is_sim_fd(int fd) { return (fd >= 1000 || (fd == 0 && g_fd.zero_is_sim)) && g_fd.fds.count(fd); }

static int64_t next_script(bool *have)
{
	if (g_fd.script_pos < g_fd.script.size())
	{
		*have = true;
		return g_fd.script[g_fd.script_pos++];
	}
	*have = false;
	return 0;
}

extern "C" {
ssize_t __wrap_read(int fd, void *buf, size_t count)
{
	if (fd < 1000 && !(fd == 0 && g_fd.zero_is_sim))
		return __real_read(fd, buf, count);
	auto it = g_fd.fds.find(fd);
	g_fd.reads++;
	if (it == g_fd.fds.end() || !it->second.open || !it->second.rd)
	{
		g_fd.events.push_back("read-on-bad-fd");
		errno = EBADF;
		return -1;
	}
	bool have;
	int64_t e = next_script(&have);
	if (have && e < 0)
	{
		g_fd.injected++;
		errno = (int)-e;
		return -1;
	}
	SimFd &f = it->second;
	if (f.nonblock && g_fd.as_fifo && !f.eagain_given)
	{
		// whoever asks for non-blocking reads on a pipe gets what a pipe does: "no data yet" before the producer has written
		f.eagain_given = true;
		errno = EAGAIN;
		return -1;
	}
	const std::string &c = g_fd.files[f.path];
	size_t rem = f.pos < c.size() ? c.size() - f.pos : 0;
	if (rem == 0)
	{
		g_fd.eof_reads++;
		return 0;
	}
	size_t n = std::min(count, rem);
	if (have && e > 0 && (size_t)e < n)
	{
		n = (size_t)e;
		g_fd.short_xfers++;
	}
	if (n == count)
		g_fd.full_buffer_reads++;
	memcpy(buf, c.data() + f.pos, n);
	f.pos += n;
	return (ssize_t)n;
}
ssize_t __wrap_write(int fd, const void *buf, size_t count)
{
	if (fd < 1000 && !(fd == 0 && g_fd.zero_is_sim))
		return __real_write(fd, buf, count);
	auto it = g_fd.fds.find(fd);
	g_fd.writes++;
	if (it == g_fd.fds.end() || !it->second.open || !it->second.wr)
	{
		g_fd.events.push_back("write-on-bad-fd");
		errno = EBADF;
		return -1;
	}
	bool have;
	int64_t e = next_script(&have);
	if (have && e < 0)
	{
		g_fd.injected++;
		errno = (int)-e;
		return -1;
	}
	size_t n = count;
	if (have && e > 0 && (size_t)e < n)
	{
		n = (size_t)e;
		g_fd.short_xfers++;
	}
	SimFd &f = it->second;
	std::string &c = g_fd.files[f.path];
	if (f.pos > c.size())
		c.resize(f.pos, '\0');
	c.replace(f.pos, std::min(n, c.size() - f.pos), (const char *)buf, n);
	f.pos += n;
	return (ssize_t)n;
}
int __wrap_open(const char *path, int flags, ...)
{
	mode_t mode = 0;
	if (flags & O_CREAT)
	{
		va_list ap;
		va_start(ap, flags);
		mode = (mode_t)va_arg(ap, int);
		va_end(ap);
	}
	if (strncmp(path, "/jsim/", 6) != 0)
		return __real_open(path, flags, mode);
	g_fd.opens++;
	if (g_fd.open_errno)
	{
		errno = g_fd.open_errno;
		g_fd.open_errno = 0;
		g_fd.injected++;
		return -1;
	}
	int acc = flags & O_ACCMODE;
	int fd = g_fd.open_sim(path, acc == O_RDONLY || acc == O_RDWR, acc == O_WRONLY || acc == O_RDWR, (flags & O_TRUNC) != 0, (flags & O_CREAT) != 0);
	if (fd >= 0 && (flags & O_NONBLOCK))
		g_fd.fds[fd].nonblock = true;
	return fd;
}
// fstat / lseek on simulated descriptors (a library may size its buffer from st_size, or skip to the current offset)
static int sim_fstat_common(int fd, mode_t *mode, off_t *size)
{
	auto it = g_fd.fds.find(fd);
	g_fd.fstats++;
	if (it == g_fd.fds.end() || !it->second.open)
	{
		errno = EBADF;
		return -1;
	}
	*mode = g_fd.as_fifo ? (S_IFIFO | 0600) : (S_IFREG | 0644);
	*size = g_fd.as_fifo ? 0 : (off_t)g_fd.files[it->second.path].size();
	return 0;
}
int __wrap_fstat(int fd, struct stat *st)
{
	if (fd < 1000 && !(fd == 0 && g_fd.zero_is_sim))
		return __real_fstat(fd, st);
	mode_t m;
	off_t sz;
	if (sim_fstat_common(fd, &m, &sz) != 0)
		return -1;
	memset(st, 0, sizeof *st);
	st->st_mode = m;
	st->st_size = sz;
	st->st_nlink = 1;
	st->st_blksize = 4096;
	st->st_blocks = (sz + 511) / 512;
	return 0;
}
int __wrap_fstat64(int fd, struct stat64 *st)
{
	if (fd < 1000 && !(fd == 0 && g_fd.zero_is_sim))
		return __real_fstat64(fd, st);
	mode_t m;
	off_t sz;
	if (sim_fstat_common(fd, &m, &sz) != 0)
		return -1;
	memset(st, 0, sizeof *st);
	st->st_mode = m;
	st->st_size = sz;
	st->st_nlink = 1;
	st->st_blksize = 4096;
	st->st_blocks = (sz + 511) / 512;
	return 0;
}
static off_t sim_lseek(int fd, off_t off, int whence)
{
	auto it = g_fd.fds.find(fd);
	g_fd.lseeks++;
	if (it == g_fd.fds.end() || !it->second.open)
	{
		errno = EBADF;
		return -1;
	}
	if (g_fd.as_fifo)
	{
		errno = ESPIPE;
		return -1;
	}
	SimFd &f = it->second;
	off_t base = whence == SEEK_SET ? 0 : whence == SEEK_CUR ? (off_t)f.pos : whence == SEEK_END ? (off_t)g_fd.files[f.path].size() : -1;
	if (base < 0 || base + off < 0)
	{
		errno = EINVAL;
		return -1;
	}
	f.pos = (size_t)(base + off);
	return (off_t)f.pos;
}
off_t __wrap_lseek(int fd, off_t off, int whence)
{
	if (fd < 1000 && !(fd == 0 && g_fd.zero_is_sim))
		return __real_lseek(fd, off, whence);
	return sim_lseek(fd, off, whence);
}
off64_t __wrap_lseek64(int fd, off64_t off, int whence)
{
	if (fd < 1000 && !(fd == 0 && g_fd.zero_is_sim))
		return __real_lseek64(fd, off, whence);
	return (off64_t)sim_lseek(fd, (off_t)off, whence);
}
int __wrap_close(int fd)
{
	if (fd < 1000 && !(fd == 0 && g_fd.zero_is_sim))
		return __real_close(fd);
	auto it = g_fd.fds.find(fd);
	g_fd.closes++;
	if (it == g_fd.fds.end() || !it->second.open)
	{
		g_fd.bad_close++;
		g_fd.events.push_back("close-of-closed-or-unknown-fd");
		errno = EBADF;
		return -1;
	}
	it->second.open = false;
	it->second.closes++;
	return 0;
}
}

// ------------------------------------------------------------------ locale
void LocSim::reset_run()
{
	dup_calls = new_calls = free_calls = use_calls = setlocale_calls = 0;
	fail_dup_at = fail_new_at = -1;
	fired = 0;
	live_created.clear();
}
void LocSim::begin_op()
{
	dup_calls = new_calls = free_calls = use_calls = setlocale_calls = 0;
	fail_dup_at = fail_new_at = -1;
	fired = 0;
}
extern "C" {
locale_t __wrap_uselocale(locale_t l)
{
	if (t_lib_active)
		g_loc.use_calls++;
	return __real_uselocale(l);
}
locale_t __wrap_duplocale(locale_t l)
{
	if (!t_lib_active)
		return __real_duplocale(l);
	long k = g_loc.dup_calls++;
	if (k == g_loc.fail_dup_at)
	{
		g_loc.fired++;
		errno = ENOMEM;
		return (locale_t)0;
	}
	locale_t r = __real_duplocale(l);
	if (r)
		g_loc.live_created.insert(r);
	return r;
}
locale_t __wrap_newlocale(int mask, const char *name, locale_t base)
{
	if (!t_lib_active)
		return __real_newlocale(mask, name, base);
	long k = g_loc.new_calls++;
	if (k == g_loc.fail_new_at)
	{
		g_loc.fired++;
		errno = ENOMEM;
		return (locale_t)0; // base is left untouched on failure (POSIX)
	}
	locale_t r = __real_newlocale(mask, name, base);
	if (r)
	{
		if (base)
			g_loc.live_created.erase(base); // consumed
		g_loc.live_created.insert(r);
	}
	return r;
}
void __wrap_freelocale(locale_t l)
{
	if (t_lib_active)
	{
		g_loc.free_calls++;
		g_loc.live_created.erase(l);
	}
	__real_freelocale(l);
}
char *__wrap_setlocale(int cat, const char *name)
{
	if (t_lib_active)
		g_loc.setlocale_calls++;
	return __real_setlocale(cat, name);
}
uint32_t __wrap_arc4random(void)
{
	g_seed.calls++;
	if (g_seed.yield_hook)
		g_seed.yield_hook();
	if (g_seed.pos < g_seed.queue.size())
		return g_seed.queue[g_seed.pos++];
	uint64_t x = g_seed.base + (uint64_t)g_seed.calls * 0x9e3779b97f4a7c15ULL;
	x ^= x >> 31;
	x *= 0xbf58476d1ce4e5b9ULL;
	x ^= x >> 29;
	uint32_t v = (uint32_t)x;
	return v == 0xffffffffu ? 0x7fffffffu : v;
}
// the same source for a library that draws its seed with arc4random_buf / arc4random_uniform instead
void __wrap_arc4random_buf(void *buf, size_t n)
{
	unsigned char *b = (unsigned char *)buf;
	for (size_t i = 0; i < n; i += 4)
	{
		uint32_t v = __wrap_arc4random();
		memcpy(b + i, &v, n - i < 4 ? n - i : 4);
	}
}
ssize_t __wrap_getrandom(void *buf, size_t n, unsigned flags)
{
	(void)flags;
	__wrap_arc4random_buf(buf, n);
	return (ssize_t)n;
}
int __wrap_getentropy(void *buf, size_t n)
{
	__wrap_arc4random_buf(buf, n);
	return 0;
}
uint32_t __wrap_arc4random_uniform(uint32_t upper)
{
	uint32_t v = __wrap_arc4random();
	return upper ? v % upper : 0;
}
}
