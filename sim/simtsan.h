/* Thread simulator: real pthreads, exactly one of which runs at any time.  json-c is compiled with
 * -fsanitize=thread and linked against THIS file instead of the TSan runtime: every load, store and atomic of json-c
 * code calls in here, which (a) is a scheduler-visible yield point and (b) feeds a vector-clock happens-before
 * race detector whose only synchronisation edges are thread create/join and json-c's own atomics. */
#ifndef SIMTSAN_H
#define SIMTSAN_H
#include <stddef.h>
#include <stdint.h>
#ifdef __cplusplus
extern "C" {
#endif

#define SIMTHR_MAX 8

struct simthr_race
{
	const void *addr;
	int tid_prev, tid_cur;
	int prev_is_write, cur_is_write, prev_atomic, cur_atomic;
	const void *pc_prev, *pc_cur; /* function entry pcs (innermost instrumented function) */
	int use_after_free;
};
struct simthr_stats
{
	uint64_t yields, switches, sched_hash, atomics, plain_accesses;
	uint64_t rmw_split_switches; /* switches taken inside a plain write callback on watched memory (between load and store) */
	int nraces;
	struct simthr_race races[8];
};
struct simthr_config
{
	uint64_t seed;
	int switch_permille_atomic; /* probability of a switch at an atomic operation */
	int switch_permille_watched; /* ... at a plain access to watched memory */
	int switch_permille_other;   /* ... at any other instrumented access / seam call */
	int pct_depth;               /* >0: PCT-style priority scheduling with this many priority change points */
	int expected_steps;          /* PCT: estimate of the number of yield points in the run */
};

void simthr_begin(const struct simthr_config *cfg);
int simthr_spawn(void (*fn)(void *), void *arg); /* returns tid >= 1; the thread stays parked until simthr_run */
void simthr_run(void);                            /* controller: run all spawned threads to completion and join them */
void simthr_end(struct simthr_stats *out);
void simthr_watch(const void *p, size_t n);
void simthr_yield(int kind);                      /* explicit yield point (seam calls) */
int simthr_self(void);                            /* tid of the calling sim thread, 0 = controller, -1 = unknown */
int simthr_active(void);
/* allocator integration (called by the allocator seam in the thr variant) */
void simthr_on_alloc(void *p, size_t n);
int simthr_on_free(void *p, size_t n);            /* returns 1 if the block was quarantined (do not free it now) */
uint64_t simthr_event_seq(void);                  /* global event sequence number (for history stamps) */
#ifdef __cplusplus
}
#endif
#endif
