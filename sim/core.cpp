#include "core.h"
#include "seams.h"
#include <algorithm>
#include <cerrno>
#include <csignal>
#include <cstdio>
#include <cstdlib>
#include <cstring>
#include <ctime>
#include <fcntl.h>
#include <functional>
#include <poll.h>
#include <sched.h>
#include <sstream>
#include <sys/mman.h>
#include <sys/stat.h>
#include <sys/wait.h>
#include <unistd.h>

const char *g_exe_path = "";
extern "C" int __llvm_profile_write_file(void) __attribute__((weak));
static const char *verif_dir_init()
{
	const char *e = getenv("VERIF_DIR");
	return (e && *e) ? strdup(e) : "/verif";
}
static const char *VERIF_DIR = verif_dir_init();

// ------------------------------------------------------------------ RunCtx
void RunCtx::logs(const std::string &s)
{
	loghash = fnv1a(s.data(), s.size(), loghash);
	loghash = fnv1a("\n", 1, loghash);
	nevents++;
	if (capture)
		lines.push_back(s);
}
void RunCtx::log(const char *fmt, ...)
{
	char buf[512];
	va_list ap;
	va_start(ap, fmt);
	int n = vsnprintf(buf, sizeof buf, fmt, ap);
	va_end(ap);
	if (n < 0)
		n = 0;
	if ((size_t)n >= sizeof buf)
		n = sizeof buf - 1;
	loghash = fnv1a(buf, (size_t)n, loghash);
	loghash = fnv1a("\n", 1, loghash);
	nevents++;
	if (capture)
		lines.push_back(std::string(buf, (size_t)n));
}
void RunCtx::note_fail(const std::string &cls, const std::string &detail)
{
	if (failed)
		return;
	failed = true;
	v.cls = cls;
	v.detail = detail;
}
void RunCtx::fail(const std::string &cls, const char *fmt, ...)
{
	char buf[2048];
	va_list ap;
	va_start(ap, fmt);
	vsnprintf(buf, sizeof buf, fmt, ap);
	va_end(ap);
	note_fail(cls, buf);
	throw ViolationUnwind();
}
void RunCtx::check() const
{
	if (failed)
		throw ViolationUnwind();
}

std::vector<std::string> Property::real_components() const
{
	return {"all json-c translation units compiled from /repo's working tree (arraylist, json_object, json_object_iterator, "
	        "json_tokener, json_util, json_visit, linkhash, printbuf, random_seed, json_pointer, json_patch, ...)",
	        "glibc string/stdio/strtod/qsort/bsearch, glibc locale objects (forwarded through the recording wrappers)"};
}
std::vector<std::string> Property::stub_components() const
{
	return {"allocator front (malloc/calloc/realloc/free/strdup/vasprintf via -Wl,--wrap; real heap behind it)",
	        "fd layer (read/write/open/close on simulated descriptors >= 1000 and paths under /jsim/)",
	        "seed source (arc4random)"};
}

// ------------------------------------------------------------------ registry
std::vector<Property *> &all_properties()
{
	static std::vector<Property *> v;
	return v;
}
void register_property(Property *p) { all_properties().push_back(p); }
Property *find_property(const std::string &id)
{
	for (auto *p : all_properties())
		if (id == p->id())
			return p;
	return nullptr;
}

// ------------------------------------------------------------------ execute
static void on_alarm(int)
{
	static const char msg[] = "JSIM-WATCHDOG: run did not finish within the wall-clock limit\n";
	ssize_t r = write(2, msg, sizeof msg - 1);
	(void)r;
	_exit(79);
}
Outcome execute_plan(Property &prop, const Plan &plan, bool capture)
{
	RunCtx ctx;
	ctx.capture = capture;
	g_alloc.reset_run();
	{
		static const unsigned char junks[4] = {0xbe, 0xff, 0x01, 0x7f};
		g_alloc.junk = junks[(plan.seed >> 7) & 3];
	}
	g_fd.reset_run();
	g_loc.reset_run();
	t_lib_active = 0;
	errno = 0; // hidden input of the caller's thread: a run must not inherit it from the previous run in this process
	signal(SIGALRM, on_alarm);
	alarm(30);
	try
	{
		prop.run(plan, ctx);
		ctx.check();
	}
	catch (ViolationUnwind &)
	{
	}
	alarm(0);
	t_lib_active = 0;
	g_alloc.free_hook = nullptr;
	g_alloc.alloc_hook = nullptr;
	Outcome o;
	o.violated = ctx.failed;
	o.v = ctx.v;
	o.loghash = ctx.loghash;
	o.nevents = ctx.nevents;
	o.nontrivial = ctx.nontrivial;
	o.cov.swap(ctx.cov);
	o.counters.swap(ctx.counters);
	o.lines.swap(ctx.lines);
	o.refine_op = ctx.refine_op;
	o.refine_faults = ctx.refine_faults;
	return o;
}

// ------------------------------------------------------------------ small helpers
static double now_s()
{
	struct timespec ts;
	clock_gettime(CLOCK_MONOTONIC, &ts);
	return ts.tv_sec + ts.tv_nsec * 1e-9;
}
static std::string hex64(uint64_t v)
{
	char b[32];
	snprintf(b, sizeof b, "%016llx", (unsigned long long)v);
	return b;
}
static std::string json_escape(const std::string &s)
{
	std::string o;
	for (unsigned char c : s)
	{
		switch (c)
		{
		case '"': o += "\\\""; break;
		case '\\': o += "\\\\"; break;
		case '\n': o += "\\n"; break;
		case '\t': o += "\\t"; break;
		case '\r': o += "\\r"; break;
		default:
			if (c < 32 || c >= 127)
			{
				char b[8];
				snprintf(b, sizeof b, "\\u%04x", c);
				o += b;
			}
			else
				o.push_back((char)c);
		}
	}
	return o;
}
static std::string sanitize_cls(std::string s)
{
	for (auto &c : s)
		if (c == ' ' || c == '\t' || c == '\n')
			c = '_';
	return s;
}
// Two class names denote the same violation?  Sanitizer crashes are compared by the innermost json-c function only: the
// *kind* ASan prints for a wild write (stack-buffer-overflow / unknown-crash / SEGV ...) depends on the address layout of
// the process, which differs from one fresh process to the next.
static std::string crash_key(const std::string &c)
{
	if (c.compare(0, 11, "crash:asan-") != 0)
		return c;
	size_t at = c.find('@');
	return at == std::string::npos ? std::string("crash:asan") : "crash:asan" + c.substr(at);
}
static bool same_class(const std::string &a, const std::string &b)
{
	if (a == b)
		return true;
	std::string ka = crash_key(a), kb = crash_key(b);
	if (ka == kb)
		return true;
	// one of them without a symbolised json-c frame
	return ka.compare(0, 10, "crash:asan") == 0 && kb.compare(0, 10, "crash:asan") == 0 && (ka == "crash:asan" || kb == "crash:asan");
}
static void mkdirs(const std::string &p)
{
	std::string cur;
	for (size_t i = 0; i < p.size(); i++)
	{
		cur.push_back(p[i]);
		if (p[i] == '/' && cur.size() > 1)
			mkdir(cur.c_str(), 0755);
	}
	mkdir(p.c_str(), 0755);
}

// ------------------------------------------------------------------ isolated execution (fresh process)
struct IsoResult
{
	enum Kind { OK, VIOL, CRASH, HANG, BROKEN } kind = BROKEN;
	std::string cls, detail;
	uint64_t hash = 0;
	std::string err_tail;
};
static std::string classify_crash(int status, const std::string &err)
{
	// sanitizer summary
	size_t p = err.find("SUMMARY: AddressSanitizer: ");
	if (p != std::string::npos)
	{
		std::istringstream ls(err.substr(p + 27, 300));
		std::string kind, loc, in, fn;
		ls >> kind >> loc >> in >> fn;
		std::string c = "crash:asan-" + kind;
		// innermost json-c function on the reported stack
		std::string jfn;
		size_t q = 0;
		while ((q = err.find(" in ", q)) != std::string::npos)
		{
			size_t e = err.find_first_of(" \n", q + 4);
			std::string name = err.substr(q + 4, e == std::string::npos ? std::string::npos : e - q - 4);
			if (is_jsonc_func(name))
			{
				jfn = name;
				break;
			}
			q += 4;
		}
		if (!jfn.empty())
			c += "@" + jfn;
		else if (in == "in" && !fn.empty())
			c += "@" + fn;
		return sanitize_cls(c);
	}
	p = err.find("runtime error: ");
	if (p != std::string::npos)
	{
		// file:line:col: runtime error: message
		size_t ls = err.rfind('\n', p);
		std::string where = err.substr(ls == std::string::npos ? 0 : ls + 1, p - (ls == std::string::npos ? 0 : ls + 1));
		size_t slash = where.rfind('/');
		if (slash != std::string::npos)
			where = where.substr(slash + 1);
		// drop column
		size_t c1 = where.find(':');
		size_t c2 = c1 == std::string::npos ? c1 : where.find(':', c1 + 1);
		if (c2 != std::string::npos)
			where = where.substr(0, c2);
		return sanitize_cls("crash:ubsan@" + where);
	}
	p = err.find("Assertion `");
	if (p != std::string::npos)
	{
		size_t ls = err.rfind('\n', p);
		std::string pre = err.substr(ls == std::string::npos ? 0 : ls + 1, p - (ls == std::string::npos ? 0 : ls + 1));
		// prog: file:line: signature: Assertion  -> name of the function in the signature
		std::string fn = "?";
		size_t paren = pre.find('(');
		if (paren != std::string::npos)
		{
			size_t b = pre.find_last_of(" *", paren);
			fn = pre.substr(b == std::string::npos ? 0 : b + 1, paren - (b == std::string::npos ? 0 : b + 1));
		}
		return sanitize_cls("crash:assert@" + fn);
	}
	if (err.find("json-c aborts with error") != std::string::npos)
		return "crash:json_abort";
	if (WIFSIGNALED(status))
		return "crash:signal-" + std::to_string(WTERMSIG(status));
	if (WIFEXITED(status))
		return "crash:exit-" + std::to_string(WEXITSTATUS(status));
	return "crash:unknown";
}
static unsigned g_tmp_counter = 0;
static std::string tmp_path(const char *tag)
{
	std::string d = std::string(VERIF_DIR) + "/build/tmp";
	mkdirs(d);
	return d + "/" + tag + "." + std::to_string(getpid()) + "." + std::to_string(g_tmp_counter++);
}
static IsoResult run_replay_file(const std::string &prop_id, const std::string &path, int timeout_s = 60)
{
	IsoResult r;
	std::string outp = tmp_path("iso-out"), errp = tmp_path("iso-err");
	pid_t pid = fork();
	if (pid < 0)
		return r;
	if (pid == 0)
	{
		int o = open(outp.c_str(), O_WRONLY | O_CREAT | O_TRUNC, 0644);
		int e = open(errp.c_str(), O_WRONLY | O_CREAT | O_TRUNC, 0644);
		dup2(o, 1);
		dup2(e, 2);
		alarm((unsigned)timeout_s);
		execl(g_exe_path, g_exe_path, prop_id.c_str(), "--replay", path.c_str(), (char *)nullptr);
		_exit(126);
	}
	int status = 0;
	waitpid(pid, &status, 0);
	std::string out, err;
	read_file(outp, out);
	read_file(errp, err);
	unlink(outp.c_str());
	unlink(errp.c_str());
	r.err_tail = err.size() > 3000 ? err.substr(err.size() - 3000) : err;
	size_t p = out.find("REPLAY-RESULT ");
	if (WIFEXITED(status) && (WEXITSTATUS(status) == 0 || WEXITSTATUS(status) == 1) && p != std::string::npos)
	{
		std::istringstream ls(out.substr(p + 14));
		std::string w;
		while (ls >> w)
		{
			if (w.rfind("class=", 0) == 0)
				r.cls = w.substr(6);
			else if (w.rfind("hash=", 0) == 0)
				r.hash = strtoull(w.substr(5).c_str(), nullptr, 16);
			else
				break;
		}
		size_t d = out.find("DETAIL ");
		if (d != std::string::npos)
		{
			size_t e = out.find('\n', d);
			r.detail = out.substr(d + 7, e == std::string::npos ? std::string::npos : e - d - 7);
		}
		r.kind = WEXITSTATUS(status) == 1 ? IsoResult::VIOL : IsoResult::OK;
		if (r.kind == IsoResult::OK)
			r.cls = "";
		return r;
	}
	if ((WIFSIGNALED(status) && WTERMSIG(status) == SIGALRM) || (WIFEXITED(status) && WEXITSTATUS(status) == 79))
	{
		r.kind = IsoResult::HANG;
		r.cls = "hang";
		r.detail = "run did not terminate within the watchdog limit";
		return r;
	}
	if (WIFEXITED(status) && (WEXITSTATUS(status) == 126 || WEXITSTATUS(status) == 2))
	{
		r.kind = IsoResult::BROKEN;
		r.detail = "replay process could not run: " + r.err_tail;
		return r;
	}
	r.kind = IsoResult::CRASH;
	r.cls = classify_crash(status, err);
	// keep the most informative stderr line as detail
	size_t s = err.find("ERROR: AddressSanitizer");
	if (s == std::string::npos)
		s = err.find("runtime error");
	if (s == std::string::npos)
		s = err.find("Assertion");
	if (s != std::string::npos)
	{
		size_t b = err.rfind('\n', s);
		size_t e = err.find('\n', s);
		r.detail = err.substr(b == std::string::npos ? 0 : b + 1, (e == std::string::npos ? err.size() : e) - (b == std::string::npos ? 0 : b + 1));
	}
	else
		r.detail = r.cls;
	return r;
}
static IsoResult run_isolated(const Plan &plan)
{
	std::string path = tmp_path("iso-plan");
	write_file(path, plan.to_text());
	IsoResult r = run_replay_file(plan.prop, path);
	unlink(path.c_str());
	return r;
}

void adopt_outcome(RunCtx &ctx, const Outcome &o)
{
	for (auto &k : o.cov)
		ctx.cov.insert(k);
	for (auto &kv : o.counters)
		ctx.counters[kv.first] += kv.second;
	ctx.nontrivial = ctx.nontrivial || o.nontrivial;
	ctx.log("nested execution: events=%llu hash=%016llx class=%s", (unsigned long long)o.nevents, (unsigned long long)o.loghash, o.violated ? o.v.cls.c_str() : "none");
	ctx.nevents += o.nevents;
	if (o.violated)
		ctx.note_fail(o.v.cls, o.v.detail);
}
bool execute_plan_fresh_process(Property &prop, const Plan &plan, Outcome &out)
{
	std::string path = tmp_path("fresh-plan"), outp = tmp_path("fresh-out"), errp = tmp_path("fresh-err");
	write_file(path, plan.to_text());
	pid_t pid = fork();
	if (pid < 0)
		return false;
	if (pid == 0)
	{
		int o = open(outp.c_str(), O_WRONLY | O_CREAT | O_TRUNC, 0644);
		int e = open(errp.c_str(), O_WRONLY | O_CREAT | O_TRUNC, 0644);
		dup2(o, 1);
		dup2(e, 2);
		setenv("JSIM_EMIT_COV", "1", 1);
		alarm(60);
		execl(g_exe_path, g_exe_path, prop.id(), "--replay", path.c_str(), (char *)nullptr);
		_exit(126);
	}
	int status = 0;
	waitpid(pid, &status, 0);
	std::string txt, err;
	read_file(outp, txt);
	read_file(errp, err);
	unlink(outp.c_str());
	unlink(errp.c_str());
	unlink(path.c_str());
	out = Outcome();
	std::istringstream in(txt);
	std::string line;
	bool got = false;
	while (std::getline(in, line))
	{
		if (line.rfind("COV ", 0) == 0)
			out.cov.insert(line.substr(4));
		else if (line.rfind("CNT ", 0) == 0)
		{
			size_t sp = line.rfind(' ');
			out.counters[line.substr(4, sp - 4)] += strtoull(line.c_str() + sp + 1, nullptr, 10);
		}
		else if (line.rfind("NONTRIVIAL ", 0) == 0)
			out.nontrivial = line[11] == '1';
		else if (line.rfind("REPLAY-RESULT ", 0) == 0)
		{
			got = true;
			std::istringstream ls(line.substr(14));
			std::string w;
			while (ls >> w)
			{
				if (w.rfind("class=", 0) == 0 && w != "class=none")
				{
					out.violated = true;
					out.v.cls = w.substr(6);
				}
				else if (w.rfind("hash=", 0) == 0)
					out.loghash = strtoull(w.substr(5).c_str(), nullptr, 16);
				else if (w.rfind("events=", 0) == 0)
					out.nevents = strtoull(w.substr(7).c_str(), nullptr, 10);
			}
		}
		else if (line.rfind("DETAIL ", 0) == 0)
			out.v.detail = line.substr(7);
	}
	if (!got)
	{
		// the fresh process died: classify like any crash
		out.violated = true;
		out.v.cls = (WIFSIGNALED(status) && WTERMSIG(status) == SIGALRM) ? "hang" : classify_crash(status, err);
		out.v.detail = "fresh-process execution died: " + (err.size() > 300 ? err.substr(err.size() - 300) : err);
	}
	return true;
}

// ------------------------------------------------------------------ shrinking
struct Shrinker
{
	std::function<bool(const Plan &)> same; // does the candidate still show the same violation class?
	std::map<std::string, int64_t> cfg_defaults;
	long budget = 4000;
	long tests = 0;
	double deadline = 0;
	bool try_plan(Plan &cur, const Plan &cand)
	{
		if (budget <= 0 || now_s() > deadline)
			return false;
		budget--;
		tests++;
		if (same(cand))
		{
			cur = cand;
			return true;
		}
		return false;
	}
	void run(Plan &plan)
	{
		bool changed = true;
		int rounds = 0;
		while (changed && budget > 0 && rounds++ < 8 && now_s() < deadline)
		{
			changed = false;
			// 1. drop ops (ddmin style: big chunks first)
			for (size_t chunk = std::max<size_t>(1, plan.ops.size() / 2); chunk >= 1; chunk /= 2)
			{
				for (size_t i = 0; i + chunk <= plan.ops.size();)
				{
					Plan c = plan;
					c.ops.erase(c.ops.begin() + i, c.ops.begin() + i + chunk);
					if (try_plan(plan, c))
						changed = true;
					else
						i += chunk;
				}
				if (chunk == 1)
					break;
			}
			// 2. drop faults
			for (size_t i = 0; i < plan.ops.size(); i++)
				for (size_t f = 0; f < plan.ops[i].faults.size();)
				{
					Plan c = plan;
					c.ops[i].faults.erase(c.ops[i].faults.begin() + f);
					if (try_plan(plan, c))
						changed = true;
					else
						f++;
				}
			// 3. shrink data
			for (size_t i = 0; i < plan.ops.size(); i++)
			{
				if (plan.ops[i].data.empty())
					continue;
				{
					Plan c = plan;
					c.ops[i].data.clear();
					if (try_plan(plan, c))
					{
						changed = true;
						continue;
					}
				}
				for (size_t chunk = std::max<size_t>(1, plan.ops[i].data.size() / 2); chunk >= 1; chunk /= 2)
				{
					for (size_t k = 0; k + chunk <= plan.ops[i].data.size();)
					{
						Plan c = plan;
						c.ops[i].data.erase(k, chunk);
						if (try_plan(plan, c))
							changed = true;
						else
							k += chunk;
					}
					if (chunk == 1)
						break;
				}
			}
			// 4. shrink numeric arguments (ops and faults)
			auto shrink_num = [&](std::function<int64_t &(Plan &)> ref) {
				int64_t v = ref(plan);
				std::vector<int64_t> cands;
				if (v != 0)
					cands.push_back(0);
				if (v > 1 || v < -1)
					cands.push_back(v / 2);
				if (v > 0)
					cands.push_back(v - 1);
				if (v < 0)
					cands.push_back(v + 1);
				for (int64_t cv : cands)
				{
					if (cv == ref(plan))
						continue;
					Plan c = plan;
					ref(c) = cv;
					if (try_plan(plan, c))
					{
						changed = true;
						break;
					}
				}
			};
			for (size_t i = 0; i < plan.ops.size(); i++)
			{
				for (size_t a = 0; a < plan.ops[i].a.size(); a++)
					shrink_num([i, a](Plan &p) -> int64_t & { return p.ops[i].a[a]; });
				for (size_t f = 0; f < plan.ops[i].faults.size(); f++)
					for (size_t a = 0; a < plan.ops[i].faults[f].a.size(); a++)
						shrink_num([i, f, a](Plan &p) -> int64_t & { return p.ops[i].faults[f].a[a]; });
			}
			// 5. configuration knobs towards their defaults
			for (auto &kv : cfg_defaults)
			{
				auto it = plan.cfg.find(kv.first);
				if (it == plan.cfg.end() || it->second == kv.second)
					continue;
				Plan c = plan;
				c.cfg[kv.first] = kv.second;
				if (try_plan(plan, c))
					changed = true;
			}
		}
	}
};

// ------------------------------------------------------------------ known findings
struct KnownFinding
{
	std::string status, property, signature, what, replay, commit;
};
static bool json_get_str(const std::string &line, const std::string &key, std::string &out)
{
	std::string pat = "\"" + key + "\"";
	size_t p = line.find(pat);
	if (p == std::string::npos)
		return false;
	p = line.find(':', p + pat.size());
	if (p == std::string::npos)
		return false;
	p = line.find('"', p);
	if (p == std::string::npos)
		return false;
	out.clear();
	for (size_t i = p + 1; i < line.size(); i++)
	{
		if (line[i] == '\\' && i + 1 < line.size())
		{
			char n = line[++i];
			out.push_back(n == 'n' ? '\n' : n == 't' ? '\t' : n);
		}
		else if (line[i] == '"')
			return true;
		else
			out.push_back(line[i]);
	}
	return false;
}
static std::vector<KnownFinding> load_known(const std::string &prop)
{
	std::vector<KnownFinding> v;
	std::string txt;
	if (!read_file(std::string(VERIF_DIR) + "/known_findings.jsonl", txt))
		return v;
	std::istringstream in(txt);
	std::string line;
	while (std::getline(in, line))
	{
		KnownFinding k;
		if (!json_get_str(line, "property", k.property) || k.property != prop)
			continue;
		json_get_str(line, "status", k.status);
		json_get_str(line, "signature", k.signature);
		json_get_str(line, "what", k.what);
		json_get_str(line, "replay", k.replay);
		json_get_str(line, "commit", k.commit);
		v.push_back(k);
	}
	return v;
}
static bool sig_match(const std::string &sig, const std::string &cls)
{
	if (!sig.empty() && sig.back() == '*')
		return cls.compare(0, sig.size() - 1, sig, 0, sig.size() - 1) == 0;
	return sig == cls;
}

// ------------------------------------------------------------------ driver
struct Args
{
	std::string prop;
	Tier tier = QUICK;
	uint64_t seed = 20261004;
	int workers = 16;
	std::string replay;
	bool verbose = false;
	int64_t runs_override = -1;
	int64_t one_index = -1;
	int time_cap = -1;
	bool no_evidence = false;
	std::string evidence_name; // file stem under /verif/evidence (default: property id)
};
static uint64_t run_seed_of(const Args &a, uint64_t index) { return mix64(mix64(a.seed, strhash(a.prop)), index); }
static uint64_t proc_seed_of(const Args &a, uint64_t start_index) { return mix64(mix64(a.seed ^ 0xabcdef, strhash(a.prop)), start_index); }

struct WorkerShared
{
	volatile uint64_t inflight; // index being executed (UINT64_MAX = none)
	volatile uint64_t next;     // next index this slice would execute
	volatile uint64_t stop;     // parent asks to stop
};

struct Tally
{
	uint64_t evaluations = 0, nontrivial = 0, events = 0;
	std::set<std::string> cov;
	std::set<uint64_t> sigs;
	std::map<std::string, uint64_t> counters;
	std::vector<std::string> samples;
};

static Plan gen_plan(Property &prop, const Args &a, uint64_t index)
{
	Rng rng(run_seed_of(a, index));
	Plan p = prop.generate(rng, a.tier, index);
	p.prop = prop.id();
	p.seed = run_seed_of(a, index);
	prop.stamp_process_cfg(p);
	return p;
}

static void send_line(int fd, const std::string &s)
{
	std::string l = s + "\n";
	size_t off = 0;
	while (off < l.size())
	{
		ssize_t n = write(fd, l.data() + off, l.size() - off);
		if (n < 0)
		{
			if (errno == EINTR)
				continue;
			_exit(3);
		}
		off += (size_t)n;
	}
}

static std::string replay_dir(const std::string &prop)
{
	std::string d = std::string(VERIF_DIR) + "/replays/" + prop;
	mkdirs(d);
	return d;
}

// worker: explore indices start, start+W, ... ; report through fd
static void worker_main(Property &prop, const Args &a, int w, uint64_t start, uint64_t total, int fd, WorkerShared *sh, double t_end)
{
	if (std::string(prop.variant()) == "thr")
	{
		// all threads of one simulated run take turns: keep them on one CPU so hand-offs are not cross-CPU wake-ups
		long ncpu = sysconf(_SC_NPROCESSORS_ONLN);
		cpu_set_t set;
		CPU_ZERO(&set);
		CPU_SET((unsigned)(w % (ncpu > 0 ? ncpu : 1)), &set);
		sched_setaffinity(0, sizeof set, &set);
	}
	prop.process_init(proc_seed_of(a, start));
	Tally t;
	int reported = 0;
	uint64_t done_here = 0;
	int recycle = prop.recycle_every();
	uint64_t i = start;
	for (; i < total; i += (uint64_t)a.workers)
	{
		if (sh->stop || now_s() > t_end)
			break;
		if (recycle && done_here >= (uint64_t)recycle)
			break;
		sh->inflight = i;
		sh->next = i + (uint64_t)a.workers;
		Plan plan = gen_plan(prop, a, i);
		Outcome o = execute_plan(prop, plan);
		sh->inflight = UINT64_MAX;
		done_here++;
		t.evaluations++;
		t.events += o.nevents;
		for (auto &k : o.cov)
			t.cov.insert(k);
		for (auto &kv : o.counters)
			t.counters[kv.first] += kv.second;
		if (o.nontrivial)
		{
			t.nontrivial++;
			uint64_t sig = 1469598103934665603ULL;
			for (auto &k : o.cov)
				sig = fnv1a(k.data(), k.size() + 1, sig);
			t.sigs.insert(sig);
		}
		if (w == 0 && t.samples.size() < 4 && (o.nontrivial || t.evaluations > 8))
			t.samples.push_back(plan.brief());
		if (!o.violated)
			continue;
		// ---- violation: determinism gate (same plan again, same process) then shrink
		sh->inflight = i; // a crash while re-running / shrinking is attributed to this run as well
		std::string cls = sanitize_cls(o.v.cls);
		if (o.refine_op >= 0 && (size_t)o.refine_op < plan.ops.size())
		{
			// make the fault that broke it explicit in the plan
			Plan explicit_plan = plan;
			explicit_plan.ops[(size_t)o.refine_op].faults = o.refine_faults;
			Outcome oe = execute_plan(prop, explicit_plan);
			if (oe.violated && same_class(sanitize_cls(oe.v.cls), cls))
			{
				plan = explicit_plan;
				o = oe;
			}
		}
		Outcome o2 = execute_plan(prop, plan);
		bool inproc_ok = o2.violated && same_class(sanitize_cls(o2.v.cls), cls) && o2.loghash == o.loghash;
		Plan best = plan;
		std::string detail = o.v.detail;
		long tests = 0;
		if (inproc_ok)
		{
			Shrinker s;
			s.cfg_defaults = prop.cfg_defaults();
			s.deadline = now_s() + 20;
			s.same = [&](const Plan &c) {
				Outcome oc = execute_plan(prop, c);
				if (oc.violated && same_class(sanitize_cls(oc.v.cls), cls))
				{
					detail = oc.v.detail;
					return true;
				}
				return false;
			};
			s.run(best);
			tests = s.tests;
			// in-process shrinking is only sound if the process carries no state from one execution to the next: the minimised plan
			// must show the same class in a fresh process, otherwise start over from the original plan with fresh processes only
			IsoResult chk = run_isolated(best);
			if (!((chk.kind == IsoResult::VIOL || chk.kind == IsoResult::CRASH || chk.kind == IsoResult::HANG) && same_class(sanitize_cls(chk.cls), cls)))
			{
				inproc_ok = false;
				best = plan;
			}
		}
		if (!inproc_ok)
		{
			// process state matters: confirm and shrink in fresh processes
			IsoResult r1 = run_isolated(plan), r2 = run_isolated(plan);
			if (r1.kind == IsoResult::OK && r2.kind == IsoResult::OK)
			{
				// The plan alone is innocent: the violation needs state left behind by earlier runs of this worker process
				// (a static cache, a global format, errno, ...).  Re-create the history in a fresh process, shortest suffix first.
				Plan hp;
				hp.prop = prop.id();
				hp.seed = plan.seed;
				hp.is_history = true;
				hp.hist_seed = a.seed;
				hp.hist_tier = a.tier == THOROUGH ? 1 : 0;
				hp.hist_step = (uint64_t)a.workers;
				hp.hist_last = i;
				bool found = false;
				uint64_t nruns = (i - start) / (uint64_t)a.workers; // runs before this one in this process
				for (uint64_t back = 1; !found; back = back * 2)
				{
					uint64_t k = back > nruns ? nruns : back;
					hp.hist_start = i - k * (uint64_t)a.workers;
					std::string hpath = tmp_path("hist-plan");
					write_file(hpath, hp.to_text());
					IsoResult h1 = run_replay_file(prop.id(), hpath, 300);
					unlink(hpath.c_str());
					if ((h1.kind == IsoResult::VIOL || h1.kind == IsoResult::CRASH) && same_class(sanitize_cls(h1.cls), cls))
					{
						found = true;
						detail = h1.detail;
					}
					if (k == nruns)
						break;
				}
				if (!found)
				{
					// not reproducible: never reported as a violation.  The batch goes on (the code under test may behave address-
					// dependently in ONE run and deterministically wrong in others); it ends with exit 2 unless a reproducible
					// violation is found as well
					send_line(fd, "I " + std::to_string(i) + " violation " + cls + " seen in-process but neither the in-process rerun, two fresh-process runs nor the replay of this worker's history reproduce it");
					sh->inflight = UINT64_MAX;
					i += (uint64_t)a.workers;
					break;
				}
				hp.expect_class = cls;
				hp.detail = detail + "  [needs the " + std::to_string((hp.hist_last - hp.hist_start) / hp.hist_step) + " preceding run(s) of the same process: state left behind by an earlier call]";
				std::string path = replay_dir(prop.id()) + "/" + std::to_string(plan.seed) + ".replay";
				write_file(path, hp.to_text());
				send_line(fd, "V " + std::to_string(i) + "\t" + cls + "\t" + path + "\thistory of " + std::to_string((hp.hist_last - hp.hist_start) / hp.hist_step + 1) + " runs\t" + hp.detail);
				reported++;
				sh->inflight = UINT64_MAX;
				i += (uint64_t)a.workers;
				break;
			}
			if (r1.cls != r2.cls || r1.hash != r2.hash)
			{
				send_line(fd, "N " + std::to_string(i) + " fresh-process runs disagree: " + r1.cls + " vs " + r2.cls);
				break;
			}
			cls = sanitize_cls(r1.cls);
			detail = r1.detail;
			Shrinker s;
			s.cfg_defaults = prop.cfg_defaults();
			s.budget = 250;
			s.deadline = now_s() + 40;
			s.same = [&](const Plan &c) {
				IsoResult rc = run_isolated(c);
				if ((rc.kind == IsoResult::VIOL || rc.kind == IsoResult::CRASH || rc.kind == IsoResult::HANG) && same_class(sanitize_cls(rc.cls), cls))
				{
					detail = rc.detail;
					return true;
				}
				return false;
			};
			s.run(best);
			tests = s.tests;
		}
		best.expect_class = cls;
		best.detail = detail;
		Outcome fo = execute_plan(prop, best); // fingerprint of the minimised plan (informational when process state matters)
		best.fingerprint = fo.loghash;
		std::string path = replay_dir(prop.id()) + "/" + std::to_string(plan.seed) + ".replay";
		write_file(path, best.to_text());
		send_line(fd, "V " + std::to_string(i) + "\t" + cls + "\t" + path + "\t" + std::to_string(plan.ops.size()) + "->" + std::to_string(best.ops.size()) + " ops in " + std::to_string(tests) + " re-runs\t" + detail);
		reported++;
		sh->inflight = UINT64_MAX;
		// the process may be dirty after a violation: hand the slice back to the parent
		i += (uint64_t)a.workers;
		break;
	}
	sh->next = i;
	// ship the tally
	send_line(fd, "E " + std::to_string(t.evaluations) + " " + std::to_string(t.nontrivial) + " " + std::to_string(t.events));
	for (auto &k : t.cov)
		send_line(fd, "K " + k);
	for (auto &kv : t.counters)
		send_line(fd, "C " + kv.first + " " + std::to_string(kv.second));
	std::string sl = "S";
	int n = 0;
	for (auto s : t.sigs)
	{
		sl += " " + hex64(s);
		if (++n == 256)
		{
			send_line(fd, sl);
			sl = "S";
			n = 0;
		}
	}
	if (n)
		send_line(fd, sl);
	for (auto &s : t.samples)
		send_line(fd, "P " + s);
	send_line(fd, std::string("D ") + std::to_string(i) + " " + std::to_string(reported));
	(void)reported;
}

struct ViolRec
{
	uint64_t index;
	std::string cls, path, shrink, detail;
};

static int replay_main(Property &prop, const Args &a)
{
	std::string txt, err;
	Plan plan;
	if (!read_file(a.replay, txt) || !Plan::from_text(txt, plan, err))
	{
		fprintf(stderr, "cannot load replay file %s: %s\n", a.replay.c_str(), err.c_str());
		return 2;
	}
	if (plan.prop != prop.id())
	{
		fprintf(stderr, "replay file is for property %s, not %s\n", plan.prop.c_str(), prop.id());
		return 2;
	}
	Outcome o;
	if (plan.is_history)
	{
		// re-create what one worker process did: the same plan indices in the same order in this fresh process
		Args ha = a;
		ha.seed = plan.hist_seed;
		ha.tier = plan.hist_tier ? THOROUGH : QUICK;
		ha.workers = (int)(plan.hist_step ? plan.hist_step : 1);
		prop.process_init(proc_seed_of(ha, plan.hist_start));
		uint64_t n = 0;
		for (uint64_t idx = plan.hist_start; idx <= plan.hist_last; idx += (uint64_t)ha.workers)
		{
			Plan p = gen_plan(prop, ha, idx);
			o = execute_plan(prop, p, a.verbose && idx == plan.hist_last);
			n++;
			if (a.verbose)
				printf("  history run index %llu -> %s\n", (unsigned long long)idx, o.violated ? o.v.cls.c_str() : "ok");
		}
		if (a.verbose)
			for (auto &l : o.lines)
				printf("  | %s\n", l.c_str());
	}
	else
	{
		prop.process_init(plan.seed);
		prop.apply_process_cfg(plan);
		o = execute_plan(prop, plan, a.verbose);
		if (a.verbose)
			for (auto &l : o.lines)
				printf("  | %s\n", l.c_str());
	}
	if (getenv("JSIM_EMIT_COV"))
	{
		for (auto &k : o.cov)
			printf("COV %s\n", k.c_str());
		for (auto &kv : o.counters)
			printf("CNT %s %llu\n", kv.first.c_str(), (unsigned long long)kv.second);
		printf("NONTRIVIAL %d\n", (int)o.nontrivial);
	}
	std::string cls = o.violated ? sanitize_cls(o.v.cls) : std::string("none");
	printf("REPLAY-RESULT class=%s hash=%s events=%llu\n", cls.c_str(), hex64(o.loghash).c_str(), (unsigned long long)o.nevents);
	if (o.violated)
	{
		std::string d = o.v.detail;
		for (auto &c : d)
			if (c == '\n')
				c = ' ';
		printf("DETAIL %s\n", d.c_str());
		printf("VIOLATION property=%s replay=%s\n", prop.report_id(), a.replay.c_str());
		fflush(stdout);
		return 1;
	}
	fflush(stdout);
	return 0;
}

static void write_evidence(Property &prop, const Args &a, const Tally &t, double wall, size_t nviol,
                           const std::vector<std::string> &known_lines, const std::vector<std::string> &viol_lines,
                           uint64_t planned, bool time_capped)
{
	std::ostringstream o;
	auto arr = [&](const std::vector<std::string> &v) {
		std::string s = "[";
		for (size_t i = 0; i < v.size(); i++)
			s += std::string(i ? "," : "") + "\"" + json_escape(v[i]) + "\"";
		return s + "]";
	};
	std::string seam_audit = "unavailable";
	{
		std::string sa;
		std::string vd = std::string(VERIF_DIR) + "/build/jc-" + prop.variant() + "/seam_audit.json";
		if (read_file(vd, sa))
			seam_audit = sa;
	}
	o << "{\n";
	o << " \"property_id\": \"" << prop.id() << "\",\n";
	o << " \"tier\": \"" << (a.tier == QUICK ? "quick" : "thorough") << "\",\n";
	o << " \"seed\": " << a.seed << ",\n";
	o << " \"level\": \"" << prop.level() << "\",\n";
	o << " \"coverage\": {\n";
	o << "  \"evaluations\": " << t.evaluations << ",\n";
	o << "  \"distinct_nontrivial\": " << t.sigs.size() << ",\n";
	o << "  \"rule\": \"" << json_escape(prop.rule()) << "\",\n";
	o << "  \"samples\": " << arr(t.samples) << ",\n";
	o << "  \"exhaustive\": " << (prop.exhaustive(a.tier) && !time_capped ? "true" : "false") << ",\n";
	o << "  \"planned_runs\": " << planned << ",\n";
	o << "  \"time_capped\": " << (time_capped ? "true" : "false") << ",\n";
	o << "  \"nontrivial_runs\": " << t.nontrivial << ",\n";
	o << "  \"distinct_coverage_keys\": " << t.cov.size() << ",\n";
	{
		std::vector<std::string> ks;
		size_t n = 0;
		for (auto &k : t.cov)
		{
			if (n++ >= 60)
				break;
			ks.push_back(k);
		}
		o << "  \"coverage_keys_sample\": " << arr(ks) << ",\n";
	}
	o << "  \"logical_steps\": " << t.events << ",\n";
	o << "  \"simulated_time\": \"none: json-c has no clock or timers; progress is counted in logical steps (event-log entries: ops, chunk deliveries, seam calls, yield points)\",\n";
	o << "  \"runs_per_hour\": " << (uint64_t)(wall > 0 ? t.evaluations / wall * 3600.0 : 0) << ",\n";
	o << "  \"workers\": " << a.workers << ",\n";
	// counters grouped
	auto group = [&](const char *prefix) {
		std::string s = "{";
		bool first = true;
		size_t pl = strlen(prefix);
		for (auto &kv : t.counters)
			if (kv.first.compare(0, pl, prefix) == 0)
			{
				s += std::string(first ? "" : ",") + "\"" + json_escape(kv.first.substr(pl)) + "\":" + std::to_string(kv.second);
				first = false;
			}
		return s + "}";
	};
	o << "  \"faults\": " << group("fault.") << ",\n";
	o << "  \"steps\": " << group("steps.") << ",\n";
	{
		// probes: make sure every declared probe is listed, zero or not
		std::map<std::string, uint64_t> pr;
		for (auto &n : prop.probes())
			pr[n] = 0;
		for (auto &n : prop.probes_expected_zero())
			pr[n] = 0;
		for (auto &kv : t.counters)
			if (kv.first.compare(0, 6, "probe.") == 0)
				pr[kv.first.substr(6)] = kv.second;
		std::string s = "{";
		bool first = true;
		std::vector<std::string> zero;
		for (auto &kv : pr)
		{
			s += std::string(first ? "" : ",") + "\"" + json_escape(kv.first) + "\":" + std::to_string(kv.second);
			first = false;
			if (kv.second == 0)
				zero.push_back(kv.first);
		}
		o << "  \"probes\": " << s << "},\n";
		o << "  \"probes_at_zero\": " << arr(zero) << ",\n";
		o << "  \"probes_expected_zero_on_correct_tree\": " << arr(prop.probes_expected_zero()) << ",\n";
	}
	o << "  \"other_counters\": " << group("n.") << ",\n";
	o << "  \"components_real\": " << arr(prop.real_components()) << ",\n";
	o << "  \"components_stubbed\": " << arr(prop.stub_components()) << ",\n";
	o << "  \"seam_audit\": " << seam_audit << ",\n";
	o << "  \"known_findings\": " << arr(known_lines) << ",\n";
	o << "  \"violation_reports\": " << arr(viol_lines) << "\n";
	o << " },\n";
	o << " \"assumptions\": " << arr(prop.assumptions()) << ",\n";
	o << " \"wall_s\": " << wall << ",\n";
	o << " \"violations\": " << nviol << "\n";
	o << "}\n";
	mkdirs(std::string(VERIF_DIR) + "/evidence");
	write_file(std::string(VERIF_DIR) + "/evidence/" + (a.evidence_name.empty() ? std::string(prop.id()) : a.evidence_name) + ".json", o.str());
}

int driver_main(int argc, char **argv)
{
	Args a;
	if (argc < 2)
	{
		fprintf(stderr, "usage: %s <property> [--tier quick|thorough] [--replay file [-v]] [--seed n] [--workers n] [--runs n] [--one index]\n", argv[0]);
		fprintf(stderr, "properties in this binary:");
		for (auto *p : all_properties())
			fprintf(stderr, " %s", p->id());
		fprintf(stderr, "\n");
		return 2;
	}
	g_exe_path = argv[0];
	a.prop = argv[1];
	if (const char *e = getenv("VERIF_SEED"))
		if (*e)
			a.seed = strtoull(e, nullptr, 10);
	if (const char *e = getenv("VERIF_TIER"))
		a.tier = strcmp(e, "thorough") == 0 ? THOROUGH : QUICK;
	if (const char *e = getenv("VERIF_WORKERS"))
		if (*e)
			a.workers = atoi(e);
	std::string indices;
	for (int i = 2; i < argc; i++)
	{
		std::string s = argv[i];
		auto need = [&](const char *what) -> const char * {
			if (i + 1 >= argc)
			{
				fprintf(stderr, "%s needs a value\n", what);
				exit(2);
			}
			return argv[++i];
		};
		if (s == "--tier")
			a.tier = strcmp(need("--tier"), "thorough") == 0 ? THOROUGH : QUICK;
		else if (s == "quick")
			a.tier = QUICK;
		else if (s == "thorough")
			a.tier = THOROUGH;
		else if (s == "--replay")
			a.replay = need("--replay");
		else if (s == "-v")
			a.verbose = true;
		else if (s == "--seed")
			a.seed = strtoull(need("--seed"), nullptr, 10);
		else if (s == "--workers")
			a.workers = atoi(need("--workers"));
		else if (s == "--runs")
			a.runs_override = atoll(need("--runs"));
		else if (s == "--one")
			a.one_index = atoll(need("--one"));
		else if (s == "--indices")
			indices = need("--indices");
		else if (s == "--time-cap")
			a.time_cap = atoi(need("--time-cap"));
		else if (s == "--no-evidence")
			a.no_evidence = true;
		else if (s == "--evidence-name")
			a.evidence_name = need("--evidence-name");
		else
		{
			fprintf(stderr, "unknown argument %s\n", s.c_str());
			return 2;
		}
	}
	if (a.workers < 1)
		a.workers = 1;
	if (a.workers > 64)
		a.workers = 64;
	symtab_load(argv[0]);
	Property *pp = find_property(a.prop);
	if (!pp)
	{
		fprintf(stderr, "property %s is not built into %s\n", a.prop.c_str(), argv[0]);
		return 2;
	}
	Property &prop = *pp;
	if (!a.replay.empty())
		return replay_main(prop, a);
	if (!indices.empty())
	{
		// debugging aid: run the given plan indices one after the other in this process (like one worker would)
		std::istringstream is(indices);
		std::string tok;
		bool first = true;
		int rc = 0;
		while (std::getline(is, tok, ','))
		{
			uint64_t idx = strtoull(tok.c_str(), nullptr, 10);
			if (first)
				prop.process_init(proc_seed_of(a, idx));
			first = false;
			Plan p = gen_plan(prop, a, idx);
			Outcome o = execute_plan(prop, p, a.verbose);
			if (a.verbose)
				for (auto &l : o.lines)
					printf("  | %s\n", l.c_str());
			uint64_t ch = 1469598103934665603ULL;
			for (auto &k : o.cov)
				ch = fnv1a(k.data(), k.size() + 1, ch);
			for (auto &kv : o.counters)
			{
				ch = fnv1a(kv.first.data(), kv.first.size() + 1, ch);
				ch = fnv1a(&kv.second, sizeof kv.second, ch);
			}
			printf("index %llu class=%s hash=%s cov=%s nontrivial=%d %s\n", (unsigned long long)idx, o.violated ? o.v.cls.c_str() : "none", hex64(o.loghash).c_str(), hex64(ch).c_str(),
			       (int)o.nontrivial, o.violated ? o.v.detail.c_str() : "");
			if (o.violated)
				rc = 1;
		}
		return rc;
	}
	if (a.one_index >= 0)
	{
		prop.process_init(proc_seed_of(a, (uint64_t)a.one_index % (uint64_t)a.workers));
		Plan p = gen_plan(prop, a, (uint64_t)a.one_index);
		printf("%s", p.to_text().c_str());
		Outcome o = execute_plan(prop, p, true);
		for (auto &l : o.lines)
			printf("  | %s\n", l.c_str());
		printf("class=%s hash=%s nontrivial=%d\n", o.violated ? o.v.cls.c_str() : "none", hex64(o.loghash).c_str(), (int)o.nontrivial);
		if (o.violated)
			printf("DETAIL %s\n", o.v.detail.c_str());
		return o.violated ? 1 : 0;
	}

	double t0 = now_s();
	uint64_t total = a.runs_override >= 0 ? (uint64_t)a.runs_override : prop.runs(a.tier);
	int cap = a.time_cap > 0 ? a.time_cap : prop.time_cap_s(a.tier);
	double t_end = t0 + cap;
	printf("jsim: property=%s tier=%s VERIF_SEED=%llu runs=%llu workers=%d variant=%s\n", prop.id(), a.tier == QUICK ? "quick" : "thorough",
	       (unsigned long long)a.seed, (unsigned long long)total, a.workers, prop.variant());
	fflush(stdout);

	// ---- known findings: replay each listed finding first
	std::vector<KnownFinding> known = load_known(prop.report_id());
	std::vector<std::string> known_lines;
	for (auto &k : known)
	{
		if (k.status != "finding")
			continue;
		bool reproduced = false;
		if (!k.replay.empty())
		{
			std::string path = k.replay[0] == '/' ? k.replay : std::string(VERIF_DIR) + "/" + k.replay;
			IsoResult r = run_replay_file(prop.id(), path);
			reproduced = (r.kind == IsoResult::VIOL || r.kind == IsoResult::CRASH) && sig_match(k.signature, sanitize_cls(r.cls));
		}
		if (reproduced)
		{
			std::string l = "KNOWN-FINDING: property=" + std::string(prop.report_id()) + " " + k.signature + " " + k.what;
			printf("%s\n", l.c_str());
			known_lines.push_back(l);
		}
		else
			printf("note: listed finding %s was not reproduced by its replay file on this tree\n", k.signature.c_str());
	}
	fflush(stdout);

	// ---- workers
	WorkerShared *sh = (WorkerShared *)mmap(nullptr, sizeof(WorkerShared) * (size_t)a.workers, PROT_READ | PROT_WRITE, MAP_SHARED | MAP_ANONYMOUS, -1, 0);
	for (int w = 0; w < a.workers; w++)
	{
		sh[w].inflight = UINT64_MAX;
		sh[w].next = UINT64_MAX;
		sh[w].stop = 0;
	}
	struct Slot
	{
		pid_t pid = -1;
		int fd = -1;
		std::string buf;
		uint64_t start = 0;
		bool finished = false;
		bool got_done = false;
		uint64_t next_after_done = 0;
		int respawns = 0;
	};
	std::vector<Slot> slots((size_t)a.workers);
	Tally T;
	std::vector<ViolRec> viols;
	std::vector<std::string> machinery_errors;
	std::vector<std::string> irreproducible; // violations seen once that no replay reproduces: exit 2 unless reproducible ones exist too
	bool stop_all = false;

	auto spawn = [&](int w, uint64_t start) {
		int pfd[2];
		if (pipe(pfd) != 0)
		{
			perror("pipe");
			exit(2);
		}
		sh[w].inflight = UINT64_MAX;
		sh[w].next = start;
		sh[w].stop = 0;
		fflush(stdout);
		fflush(stderr);
		pid_t pid = fork();
		if (pid < 0)
		{
			perror("fork");
			exit(2);
		}
		if (pid == 0)
		{
			close(pfd[0]);
			for (auto &s : slots)
				if (s.fd >= 0)
					close(s.fd);
			worker_main(prop, a, w, start, total, pfd[1], &sh[w], t_end);
			close(pfd[1]);
			fflush(stdout);
			if (__llvm_profile_write_file)
				__llvm_profile_write_file(); // coverage variant only
			_exit(0);
		}
		close(pfd[1]);
		fcntl(pfd[0], F_SETFL, O_NONBLOCK);
		slots[(size_t)w].pid = pid;
		slots[(size_t)w].fd = pfd[0];
		slots[(size_t)w].buf.clear();
		slots[(size_t)w].start = start;
		slots[(size_t)w].finished = false;
		slots[(size_t)w].got_done = false;
	};
	auto handle_line = [&](int w, const std::string &line) {
		if (line.size() < 2)
			return;
		char tag = line[0];
		std::string rest = line.substr(2);
		if (tag == 'E')
		{
			unsigned long long e, n, ev;
			if (sscanf(rest.c_str(), "%llu %llu %llu", &e, &n, &ev) == 3)
			{
				T.evaluations += e;
				T.nontrivial += n;
				T.events += ev;
			}
		}
		else if (tag == 'K')
			T.cov.insert(rest);
		else if (tag == 'C')
		{
			size_t sp = rest.rfind(' ');
			if (sp != std::string::npos)
				T.counters[rest.substr(0, sp)] += strtoull(rest.c_str() + sp + 1, nullptr, 10);
		}
		else if (tag == 'S')
		{
			std::istringstream ls(rest);
			std::string h;
			while (ls >> h)
				T.sigs.insert(strtoull(h.c_str(), nullptr, 16));
		}
		else if (tag == 'P')
		{
			if (T.samples.size() < 6)
				T.samples.push_back(rest);
		}
		else if (tag == 'V')
		{
			ViolRec v;
			std::vector<std::string> f;
			size_t p = 0;
			while (true)
			{
				size_t q = rest.find('\t', p);
				f.push_back(rest.substr(p, q == std::string::npos ? std::string::npos : q - p));
				if (q == std::string::npos)
					break;
				p = q + 1;
			}
			if (f.size() >= 5)
			{
				v.index = strtoull(f[0].c_str(), nullptr, 10);
				v.cls = f[1];
				v.path = f[2];
				v.shrink = f[3];
				v.detail = f[4];
				viols.push_back(v);
			}
		}
		else if (tag == 'N')
			machinery_errors.push_back(rest);
		else if (tag == 'I')
			irreproducible.push_back(rest);
		else if (tag == 'D')
		{
			slots[(size_t)w].got_done = true;
			slots[(size_t)w].next_after_done = strtoull(rest.c_str(), nullptr, 10);
		}
	};

	for (int w = 0; w < a.workers; w++)
	{
		if ((uint64_t)w < total)
			spawn(w, (uint64_t)w);
		else
			slots[(size_t)w].finished = true;
	}
	size_t crash_count = 0;
	while (true)
	{
		std::vector<struct pollfd> pf;
		std::vector<int> who;
		for (int w = 0; w < a.workers; w++)
			if (!slots[(size_t)w].finished && slots[(size_t)w].fd >= 0)
			{
				pf.push_back({slots[(size_t)w].fd, POLLIN, 0});
				who.push_back(w);
			}
		if (pf.empty())
			break;
		poll(pf.data(), pf.size(), 1000);
		for (size_t k = 0; k < pf.size(); k++)
		{
			int w = who[k];
			Slot &s = slots[(size_t)w];
			if (!(pf[k].revents & (POLLIN | POLLHUP | POLLERR)))
				continue;
			char buf[65536];
			bool eof = false;
			while (true)
			{
				ssize_t n = read(s.fd, buf, sizeof buf);
				if (n > 0)
					s.buf.append(buf, (size_t)n);
				else if (n == 0)
				{
					eof = true;
					break;
				}
				else
				{
					if (errno == EINTR)
						continue;
					break;
				}
			}
			size_t pos;
			while ((pos = s.buf.find('\n')) != std::string::npos)
			{
				handle_line(w, s.buf.substr(0, pos));
				s.buf.erase(0, pos + 1);
			}
			if (!eof)
				continue;
			close(s.fd);
			s.fd = -1;
			int status = 0;
			waitpid(s.pid, &status, 0);
			uint64_t resume = UINT64_MAX;
			if (s.got_done && WIFEXITED(status) && WEXITSTATUS(status) == 0)
				resume = s.next_after_done; // clean end of slice, recycle or post-violation hand-back
			else
			{
				// the worker died: attribute the death to the run in flight
				uint64_t idx = sh[w].inflight;
				crash_count++;
				if (idx == UINT64_MAX)
				{
					machinery_errors.push_back("worker " + std::to_string(w) + " died outside a run (status " + std::to_string(status) + ")");
					resume = UINT64_MAX;
				}
				else
				{
					T.evaluations++;
					// regenerate the plan exactly as the worker did (same process-level configuration)
					prop.process_init(proc_seed_of(a, s.start));
					Plan plan = gen_plan(prop, a, idx);
					IsoResult r1 = run_isolated(plan);
					if (r1.kind == IsoResult::OK || r1.kind == IsoResult::BROKEN)
					{
						// depends on state accumulated in the worker process: not replayable from the plan alone
						machinery_errors.push_back("worker " + std::to_string(w) + " died (status " + std::to_string(status) + ") in run index " + std::to_string(idx) +
						                           " but the plan alone does not reproduce it in a fresh process: " + r1.detail);
					}
					else
					{
						std::string cls = sanitize_cls(r1.cls), detail = r1.detail;
						Plan best = plan;
						Shrinker sk;
						sk.cfg_defaults = prop.cfg_defaults();
						bool seen_class = false;
						for (auto &pv : viols)
							if (same_class(pv.cls, cls))
								seen_class = true;
						sk.budget = seen_class ? 0 : 250; // one minimised replay per class is enough
						sk.deadline = now_s() + 45;
						sk.same = [&](const Plan &c) {
							IsoResult rc = run_isolated(c);
							if ((rc.kind == IsoResult::VIOL || rc.kind == IsoResult::CRASH || rc.kind == IsoResult::HANG) && same_class(sanitize_cls(rc.cls), cls))
							{
								detail = rc.detail;
								return true;
							}
							return false;
						};
						sk.run(best);
						best.expect_class = cls;
						best.detail = detail;
						std::string path = replay_dir(prop.id()) + "/" + std::to_string(plan.seed) + ".replay";
						write_file(path, best.to_text());
						ViolRec v;
						v.index = idx;
						v.cls = cls;
						v.path = path;
						v.shrink = std::to_string(plan.ops.size()) + "->" + std::to_string(best.ops.size()) + " ops in " + std::to_string(sk.tests) + " fresh-process re-runs";
						v.detail = detail;
						viols.push_back(v);
					}
					resume = idx + (uint64_t)a.workers;
				}
			}
			// stop exploring once enough violations are in hand
			std::set<std::string> classes;
			for (auto &v : viols)
				classes.insert(v.cls);
			if (viols.size() >= 12 || classes.size() >= 6 || !machinery_errors.empty() || irreproducible.size() >= 6)
				stop_all = true;
			if (stop_all)
				for (int x = 0; x < a.workers; x++)
					sh[x].stop = 1;
			if (!stop_all && resume != UINT64_MAX && resume < total && now_s() < t_end && s.respawns < 100000)
			{
				s.respawns++;
				spawn(w, resume);
			}
			else
				s.finished = true;
		}
	}
	bool time_capped = false;
	for (int w = 0; w < a.workers; w++)
		if (sh[w].next < total && !stop_all)
			time_capped = true;

	// ---- gate every violation: fresh-process replay must reproduce the same class, twice with the same fingerprint
	std::vector<std::string> viol_lines;
	std::map<std::string, ViolRec> by_class;
	for (auto &v : viols)
		if (!by_class.count(crash_key(v.cls)))
			by_class[crash_key(v.cls)] = v;
	size_t unlisted = 0;
	for (auto &kv : by_class)
	{
		ViolRec &v = kv.second;
		IsoResult r1 = run_replay_file(prop.id(), v.path), r2 = run_replay_file(prop.id(), v.path);
		bool ok = (r1.kind == IsoResult::VIOL || r1.kind == IsoResult::CRASH || r1.kind == IsoResult::HANG) && same_class(sanitize_cls(r1.cls), v.cls) &&
		          r2.kind == r1.kind && same_class(r2.cls, r1.cls) && r1.hash == r2.hash;
		if (!ok)
		{
			machinery_errors.push_back("replay gate failed for " + v.path + ": expected " + v.cls + ", fresh replays gave " + r1.cls + "/" + hex64(r1.hash) + " and " + r2.cls + "/" + hex64(r2.hash));
			continue;
		}
		bool listed = false;
		for (auto &k : known)
			if (k.status == "finding" && sig_match(k.signature, v.cls))
			{
				listed = true;
				std::string l = "KNOWN-FINDING: property=" + std::string(prop.report_id()) + " " + k.signature + " (seen again in exploration, run index " + std::to_string(v.index) + ") " + k.what;
				bool dup = false;
				for (auto &x : known_lines)
					if (x.find(k.signature) != std::string::npos)
						dup = true;
				if (!dup)
				{
					printf("%s\n", l.c_str());
					known_lines.push_back(l);
				}
			}
		if (listed)
			continue;
		unlisted++;
		printf("VIOLATION property=%s replay=%s\n", prop.report_id(), v.path.c_str());
		printf("  class=%s run_index=%llu shrink=%s\n  %s\n", v.cls.c_str(), (unsigned long long)v.index, v.shrink.c_str(), v.detail.c_str());
		viol_lines.push_back(v.cls + " replay=" + v.path + " :: " + v.detail);
	}
	double wall = now_s() - t0;
	if (!a.no_evidence)
		write_evidence(prop, a, T, wall, unlisted, known_lines, viol_lines, total, time_capped);
	printf("jsim: %s %s: %llu runs (%llu non-trivial, %zu distinct behaviours, %zu coverage keys), %llu logical steps, %.1fs, violations=%zu%s\n", prop.id(),
	       a.tier == QUICK ? "quick" : "thorough", (unsigned long long)T.evaluations, (unsigned long long)T.nontrivial, T.sigs.size(), T.cov.size(),
	       (unsigned long long)T.events, wall, unlisted, time_capped ? " (time-capped)" : "");
	// probes stuck at zero are a warning about reach, not a failure
	{
		std::set<std::string> ez;
		for (auto &n : prop.probes_expected_zero())
			ez.insert(n);
		for (auto &n : prop.probes())
			if (!T.counters.count("probe." + n) && !ez.count(n))
				printf("warning: probe '%s' was never hit in this batch\n", n.c_str());
	}
	for (auto &m : irreproducible)
	{
		if (unlisted)
			printf("NOTE: not reproducible, not reported: %s\n", m.c_str());
		else
			machinery_errors.push_back(m);
	}
	if (!machinery_errors.empty())
	{
		for (auto &m : machinery_errors)
			printf("MACHINERY-ERROR: %s\n", m.c_str());
		fflush(stdout);
		return 2;
	}
	fflush(stdout);
	return unlisted ? 1 : 0;
}
