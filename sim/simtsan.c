/* See simtsan.h.  This file must NOT be compiled with -fsanitize=thread. */
#define _GNU_SOURCE
#include "simtsan.h"
#include <pthread.h>
#include <semaphore.h>
#include <stdio.h>
#include <stdlib.h>
#include <string.h>

/* ------------------------------------------------------------------ state */
static volatile int g_active;
static __thread int t_tid = -1;
static sem_t g_sem[SIMTHR_MAX];
static pthread_t g_pth[SIMTHR_MAX];
static volatile int g_state[SIMTHR_MAX]; /* 0 unused, 1 runnable, 2 finished */
static int g_nthreads;                   /* highest tid in use */
static struct simthr_config g_cfg;
static struct simthr_stats g_stats;
static uint64_t g_rng[4];
static uint64_t g_seq;
static uint64_t g_step;
/* PCT */
static int g_prio[SIMTHR_MAX];
static uint64_t g_change_at[16];
static int g_nchange;

struct start_rec
{
	void (*fn)(void *);
	void *arg;
	int tid;
};
static struct start_rec g_start[SIMTHR_MAX];

static uint64_t rotl(uint64_t x, int k) { return (x << k) | (x >> (64 - k)); }
static uint64_t rnd(void)
{
	uint64_t *s = g_rng;
	uint64_t r = rotl(s[1] * 5, 7) * 9, t = s[1] << 17;
	s[2] ^= s[0];
	s[3] ^= s[1];
	s[1] ^= s[2];
	s[0] ^= s[3];
	s[2] ^= t;
	s[3] = rotl(s[3], 45);
	return r;
}
static void seed_rng(uint64_t x)
{
	for (int i = 0; i < 4; i++)
	{
		uint64_t z = (x += 0x9e3779b97f4a7c15ULL);
		z = (z ^ (z >> 30)) * 0xbf58476d1ce4e5b9ULL;
		z = (z ^ (z >> 27)) * 0x94d049bb133111ebULL;
		g_rng[i] = z ^ (z >> 31);
	}
}

/* ------------------------------------------------------------------ vector clocks + shadow cells */
static uint32_t g_vc[SIMTHR_MAX][SIMTHR_MAX];

#define NCELLS (1u << 16)
struct cell
{
	uintptr_t key; /* addr >> 2, 0 = empty */
	uint32_t gen;
	uint32_t wclk;
	int8_t wtid; /* -1 none */
	uint8_t watomic, freed;
	const void *wpc;
	uint32_t rclk[SIMTHR_MAX];  /* plain reads */
	uint32_t arclk[SIMTHR_MAX]; /* atomic loads: conflict with plain writes only (atomic load vs atomic RMW/store is never a data race) */
	const void *rpc[SIMTHR_MAX];
	/* release clock when the location is used as an atomic variable */
	uint32_t avc[SIMTHR_MAX];
	uint8_t has_avc;
};
static struct cell *g_cells;
static uint32_t g_gen = 1;

static struct cell *cell_for(uintptr_t key, int create)
{
	uint32_t h = (uint32_t)((key * 0x9e3779b97f4a7c15ULL) >> 40) & (NCELLS - 1);
	for (unsigned probe = 0; probe < 64; probe++)
	{
		struct cell *c = &g_cells[(h + probe) & (NCELLS - 1)];
		if (c->gen == g_gen && c->key == key)
			return c;
		if (c->gen != g_gen)
		{
			if (!create)
				return NULL;
			memset(c, 0, sizeof *c);
			c->gen = g_gen;
			c->key = key;
			c->wtid = -1;
			return c;
		}
	}
	return NULL; /* table crowded: give up on this address (no report rather than a wrong one) */
}

/* watched ranges (shared nodes): elevated switch probability */
static struct
{
	uintptr_t lo, hi;
} g_watch[64];
static int g_nwatch;
static int is_watched(uintptr_t a)
{
	for (int i = 0; i < g_nwatch; i++)
		if (a >= g_watch[i].lo && a < g_watch[i].hi)
			return 1;
	return 0;
}

/* quarantine of blocks freed during the simulation */
static void *g_quar[65536];
static int g_nquar;

static void report(const void *addr, struct cell *c, int prev_tid, int prev_write, int prev_atomic, const void *prev_pc, int cur_write, int cur_atomic, const void *pc, int uaf)
{
	(void)c;
	for (int i = 0; i < g_stats.nraces; i++)
		if (g_stats.races[i].addr == addr)
			return;
	if (g_stats.nraces >= 8)
		return;
	if (getenv("SIMTSAN_DEBUG"))
		fprintf(stderr, "SIMTSAN race addr=%p prev tid=%d write=%d atomic=%d pc=%p | cur tid=%d write=%d atomic=%d pc=%p uaf=%d step=%llu\n", addr, prev_tid, prev_write, prev_atomic,
		        prev_pc, t_tid, cur_write, cur_atomic, pc, uaf, (unsigned long long)g_step);
	struct simthr_race *r = &g_stats.races[g_stats.nraces++];
	r->addr = addr;
	r->tid_prev = prev_tid;
	r->tid_cur = t_tid;
	r->prev_is_write = prev_write;
	r->cur_is_write = cur_write;
	r->prev_atomic = prev_atomic;
	r->cur_atomic = cur_atomic;
	r->pc_prev = prev_pc;
	r->pc_cur = pc;
	r->use_after_free = uaf;
}

static void access(uintptr_t addr, int size, int is_write, int is_atomic, const void *pc)
{
	int t = t_tid;
	if (t < 0)
		return;
	for (uintptr_t a = addr & ~(uintptr_t)3; a < addr + (uintptr_t)size; a += 4)
	{
		struct cell *c = cell_for(a >> 2, 1);
		if (!c)
			continue;
		if (c->freed)
		{
			report((const void *)a, c, c->wtid, 1, 0, c->wpc, is_write, is_atomic, pc, 1);
			continue;
		}
		/* conflict with the last write */
		if (c->wtid >= 0 && c->wtid != t && !(c->watomic && is_atomic) && c->wclk > g_vc[t][c->wtid])
			report((const void *)a, c, c->wtid, 1, c->watomic, c->wpc, is_write, is_atomic, pc, 0);
		if (is_write)
		{
			/* conflict with earlier reads */
			for (int u = 0; u <= g_nthreads; u++)
			{
				if (u != t && c->rclk[u] > g_vc[t][u])
					report((const void *)a, c, u, 0, 0, c->rpc[u], 1, is_atomic, pc, 0);
				else if (u != t && !is_atomic && c->arclk[u] > g_vc[t][u])
					report((const void *)a, c, u, 0, 1, c->rpc[u], 1, 0, pc, 0);
			}
			c->wtid = (int8_t)t;
			c->wclk = g_vc[t][t];
			c->watomic = (uint8_t)is_atomic;
			c->wpc = pc;
			if (!is_atomic)
			{
				memset(c->rclk, 0, sizeof c->rclk);
				memset(c->arclk, 0, sizeof c->arclk);
			}
		}
		else
		{
			if (is_atomic)
				c->arclk[t] = g_vc[t][t];
			else
				c->rclk[t] = g_vc[t][t];
			c->rpc[t] = pc;
		}
	}
}

/* Synchronisation through the atomic variable at addr, honouring the C11 memory order the code asked for
 * (0 relaxed, 1 consume, 2 acquire, 3 release, 4 acq_rel, 5 seq_cst; the __sync builtins json-c uses arrive as seq_cst).
 * A release-only decrement followed by free(), or relaxed counters, therefore do NOT order the last accesses of other
 * owners before the destruction - exactly what a weakly ordered CPU would allow. */
static void atomic_sync(uintptr_t addr, int mo, int is_load_only, int is_store_only)
{
	int t = t_tid;
	if (t < 0)
		return;
	struct cell *c = cell_for((addr & ~(uintptr_t)3) >> 2, 1);
	if (!c)
		return;
	int acquire = (mo == 1 || mo == 2 || mo == 4 || mo == 5) && !is_store_only;
	int release = (mo == 3 || mo == 4 || mo == 5) && !is_load_only;
	if (acquire && c->has_avc)
		for (int u = 0; u <= g_nthreads; u++)
			if (c->avc[u] > g_vc[t][u])
				g_vc[t][u] = c->avc[u];
	if (release)
	{
		/* release sequence: a later release on the same variable continues the earlier ones (RMW chain) */
		for (int u = 0; u <= g_nthreads; u++)
			if (g_vc[t][u] > c->avc[u] || !c->has_avc)
				c->avc[u] = c->has_avc && c->avc[u] > g_vc[t][u] ? c->avc[u] : g_vc[t][u];
		c->has_avc = 1;
	}
	g_vc[t][t]++;
}

/* ------------------------------------------------------------------ scheduler */
static void sched_note(int next)
{
	g_stats.sched_hash = (g_stats.sched_hash ^ (uint64_t)(next + 1)) * 1099511628211ULL;
}
static int choose_next(int permille)
{
	int me = t_tid;
	int runnable[SIMTHR_MAX], n = 0;
	for (int i = 1; i <= g_nthreads; i++)
		if (g_state[i] == 1)
			runnable[n++] = i;
	if (n <= 1)
		return me;
	if (g_cfg.pct_depth > 0)
	{
		for (int k = 0; k < g_nchange; k++)
			if (g_change_at[k] == g_step)
				g_prio[me] = -(k + 1); /* drop below every initial priority */
		int best = me;
		for (int i = 0; i < n; i++)
			if (g_prio[runnable[i]] > g_prio[best] || g_state[best] != 1)
				best = runnable[i];
		return best;
	}
	if ((int)(rnd() % 1000) >= permille)
		return me;
	int pick = (int)(rnd() % (uint64_t)(n - 1));
	for (int i = 0; i < n; i++)
	{
		if (runnable[i] == me)
			continue;
		if (pick-- == 0)
			return runnable[i];
	}
	return me;
}
static int switch_to(int next)
{
	int me = t_tid;
	sched_note(next);
	if (next == me)
		return 0;
	g_stats.switches++;
	sem_post(&g_sem[next]);
	sem_wait(&g_sem[me]);
	return 1;
}
static int yield_point(int permille)
{
	if (!g_active || t_tid <= 0)
		return 0;
	g_stats.yields++;
	g_step++;
	g_seq++;
	return switch_to(choose_next(permille));
}
void simthr_yield(int kind)
{
	(void)kind;
	yield_point(g_cfg.switch_permille_other);
}
uint64_t simthr_event_seq(void) { return g_seq; }
int simthr_self(void) { return t_tid; }
int simthr_active(void) { return g_active; }

static void *trampoline(void *p)
{
	struct start_rec *s = (struct start_rec *)p;
	t_tid = s->tid;
	sem_wait(&g_sem[s->tid]);
	s->fn(s->arg);
	/* finished: hand the token on */
	g_state[s->tid] = 2;
	g_seq++;
	int next = 0;
	if (g_cfg.pct_depth > 0)
	{
		int best = 0;
		for (int i = 1; i <= g_nthreads; i++)
			if (g_state[i] == 1 && (best == 0 || g_prio[i] > g_prio[best]))
				best = i;
		next = best;
	}
	else
	{
		int runnable[SIMTHR_MAX], n = 0;
		for (int i = 1; i <= g_nthreads; i++)
			if (g_state[i] == 1)
				runnable[n++] = i;
		if (n)
			next = runnable[rnd() % (uint64_t)n];
	}
	sched_note(next);
	sem_post(&g_sem[next]);
	return NULL;
}

void simthr_begin(const struct simthr_config *cfg)
{
	if (!g_cells)
		g_cells = (struct cell *)calloc(NCELLS, sizeof(struct cell));
	g_gen++;
	if (g_gen == 0)
	{
		memset(g_cells, 0, NCELLS * sizeof(struct cell));
		g_gen = 1;
	}
	g_cfg = *cfg;
	seed_rng(cfg->seed);
	memset(&g_stats, 0, sizeof g_stats);
	g_stats.sched_hash = 1469598103934665603ULL;
	memset(g_vc, 0, sizeof g_vc);
	memset((void *)g_state, 0, sizeof g_state);
	g_nthreads = 0;
	g_nwatch = 0;
	g_nquar = 0;
	g_seq = 0;
	g_step = 0;
	g_nchange = 0;
	if (cfg->pct_depth > 0)
	{
		int d = cfg->pct_depth > 16 ? 16 : cfg->pct_depth;
		int steps = cfg->expected_steps > 0 ? cfg->expected_steps : 64;
		for (int k = 0; k < d - 1; k++)
			g_change_at[g_nchange++] = rnd() % (uint64_t)steps;
	}
	for (int i = 0; i < SIMTHR_MAX; i++)
		sem_init(&g_sem[i], 0, 0);
	t_tid = 0;
	g_vc[0][0] = 1;
	g_state[0] = 1;
	g_active = 1;
}
int simthr_spawn(void (*fn)(void *), void *arg)
{
	if (g_nthreads + 1 >= SIMTHR_MAX)
		return -1;
	int tid = ++g_nthreads;
	g_start[tid].fn = fn;
	g_start[tid].arg = arg;
	g_start[tid].tid = tid;
	g_state[tid] = 1;
	g_prio[tid] = 1000 + (int)(rnd() % 1000);
	/* happens-before: everything the controller did so far */
	for (int u = 0; u < SIMTHR_MAX; u++)
		g_vc[tid][u] = g_vc[0][u];
	g_vc[tid][tid] = 1;
	g_vc[0][0]++;
	pthread_create(&g_pth[tid], NULL, trampoline, &g_start[tid]);
	return tid;
}
void simthr_run(void)
{
	if (g_nthreads == 0)
		return;
	int first;
	if (g_cfg.pct_depth > 0)
	{
		first = 1;
		for (int i = 2; i <= g_nthreads; i++)
			if (g_prio[i] > g_prio[first])
				first = i;
	}
	else
		first = 1 + (int)(rnd() % (uint64_t)g_nthreads);
	sched_note(first);
	sem_post(&g_sem[first]);
	sem_wait(&g_sem[0]);
	for (int i = 1; i <= g_nthreads; i++)
	{
		pthread_join(g_pth[i], NULL);
		for (int u = 0; u < SIMTHR_MAX; u++)
			if (g_vc[i][u] > g_vc[0][u])
				g_vc[0][u] = g_vc[i][u];
	}
	g_vc[0][0]++;
}
void simthr_end(struct simthr_stats *out)
{
	g_active = 0;
	if (out)
		*out = g_stats;
	for (int i = 0; i < g_nquar; i++)
		free(g_quar[i]);
	g_nquar = 0;
	t_tid = -1;
}
void simthr_watch(const void *p, size_t n)
{
	if (g_nwatch < 64)
	{
		g_watch[g_nwatch].lo = (uintptr_t)p;
		g_watch[g_nwatch].hi = (uintptr_t)p + n;
		g_nwatch++;
	}
}
void simthr_on_alloc(void *p, size_t n)
{
	if (!g_active || !p)
		return;
	if (getenv("SIMTSAN_DEBUG"))
		fprintf(stderr, "SIMTSAN alloc %p..%p tid=%d step=%llu\n", p, (char *)p + n, t_tid, (unsigned long long)g_step);
	uintptr_t a = (uintptr_t)p & ~(uintptr_t)3;
	size_t lim = n > ((size_t)1 << 20) ? ((size_t)1 << 20) : n; /* fresh memory: forget whatever an earlier owner of these addresses did */
	for (uintptr_t x = a; x < (uintptr_t)p + lim; x += 4)
	{
		struct cell *c = cell_for(x >> 2, 0);
		if (c)
		{
			uintptr_t key = c->key;
			memset(c, 0, sizeof *c);
			c->gen = g_gen;
			c->key = key;
			c->wtid = -1;
		}
	}
}
int simthr_on_free(void *p, size_t n)
{
	if (getenv("SIMTSAN_DEBUG"))
		fprintf(stderr, "SIMTSAN free %p..%p tid=%d step=%llu active=%d\n", p, (char *)p + n, t_tid, (unsigned long long)g_step, g_active);
	if (!g_active || !p || g_nquar >= 65536)
		return 0;
	{
		struct cell *c0 = cell_for(((uintptr_t)p & ~(uintptr_t)3) >> 2, 0);
		if (c0 && c0->freed)
		{
			/* second free of a block that is already in quarantine */
			report(p, c0, c0->wtid, 1, 0, c0->wpc, 1, 0, __builtin_return_address(0), 2);
			return 1;
		}
	}
	size_t lim = n > 512 ? 512 : n;
	/* releasing a block is a write to all of it: it must be ordered after every other thread's last access */
	if (t_tid >= 0)
		access((uintptr_t)p, (int)(lim > 256 ? 256 : lim), 1, 0, __builtin_return_address(0));
	for (uintptr_t x = (uintptr_t)p & ~(uintptr_t)3; x < (uintptr_t)p + lim; x += 4)
	{
		struct cell *c = cell_for(x >> 2, 1);
		if (c)
		{
			c->freed = 1;
			c->wtid = (int8_t)(t_tid < 0 ? 0 : t_tid);
			c->wpc = __builtin_return_address(0);
		}
	}
	g_quar[g_nquar++] = p;
	return 1;
}

/* ------------------------------------------------------------------ the callbacks the instrumented code calls */
#define PC __builtin_return_address(0)
static inline void plain(void *addr, int size, int is_write, const void *pc)
{
	if (!g_active || t_tid < 0)
		return;
	g_stats.plain_accesses++;
	int watched = is_watched((uintptr_t)addr);
	if (t_tid > 0)
	{
		/* the switch happens BEFORE the access takes effect: for "load; add; store" the store is still pending here */
		int sw = yield_point(watched ? g_cfg.switch_permille_watched : g_cfg.switch_permille_other);
		if (sw && is_write && watched)
			g_stats.rmw_split_switches++;
	}
	access((uintptr_t)addr, size, is_write, 0, pc);
}
void __tsan_init(void) {}
void __tsan_func_entry(void *pc) { (void)pc; }
void __tsan_func_exit(void) {}
void __tsan_read1(void *a) { plain(a, 1, 0, PC); }
void __tsan_read2(void *a) { plain(a, 2, 0, PC); }
void __tsan_read4(void *a) { plain(a, 4, 0, PC); }
void __tsan_read8(void *a) { plain(a, 8, 0, PC); }
void __tsan_read16(void *a) { plain(a, 16, 0, PC); }
void __tsan_write1(void *a) { plain(a, 1, 1, PC); }
void __tsan_write2(void *a) { plain(a, 2, 1, PC); }
void __tsan_write4(void *a) { plain(a, 4, 1, PC); }
void __tsan_write8(void *a) { plain(a, 8, 1, PC); }
void __tsan_write16(void *a) { plain(a, 16, 1, PC); }
void __tsan_unaligned_read2(void *a) { plain(a, 2, 0, PC); }
void __tsan_unaligned_read4(void *a) { plain(a, 4, 0, PC); }
void __tsan_unaligned_read8(void *a) { plain(a, 8, 0, PC); }
void __tsan_unaligned_write2(void *a) { plain(a, 2, 1, PC); }
void __tsan_unaligned_write4(void *a) { plain(a, 4, 1, PC); }
void __tsan_unaligned_write8(void *a) { plain(a, 8, 1, PC); }
void __tsan_read_range(void *a, unsigned long n) { plain(a, n > 64 ? 64 : (int)n, 0, PC); }
void __tsan_write_range(void *a, unsigned long n) { plain(a, n > 64 ? 64 : (int)n, 1, PC); }
void __tsan_vptr_update(void **a, void *v) { (void)a; (void)v; }
void __tsan_vptr_read(void **a) { (void)a; }
void __tsan_read1_pc(void *a, void *pc) { plain(a, 1, 0, pc); }
void __tsan_write1_pc(void *a, void *pc) { plain(a, 1, 1, pc); }

/* atomics: yield point, then the operation executes atomically (only one thread runs) */
static inline void atomic_pre_mo(volatile void *a, int size, const void *pc, int mo, int load_only, int store_only)
{
	if (!g_active || t_tid < 0)
		return;
	g_stats.atomics++;
	if (t_tid > 0)
		yield_point(g_cfg.switch_permille_atomic);
	access((uintptr_t)a, size, !load_only, 1, pc);
	atomic_sync((uintptr_t)a, mo, load_only, store_only);
}
#define atomic_pre(a, size, pc) atomic_pre_mo((a), (size), (pc), mo, 0, 0)
#define DEF_ATOMICS(bits, type)                                                                                          \
	type __tsan_atomic##bits##_fetch_add(volatile type *a, type v, int mo)                                             \
	{                                                                                                                  \
		(void)mo;                                                                                                      \
		atomic_pre(a, bits / 8, PC);                                                                                   \
		return __atomic_fetch_add(a, v, __ATOMIC_SEQ_CST);                                                             \
	}                                                                                                                  \
	type __tsan_atomic##bits##_fetch_sub(volatile type *a, type v, int mo)                                             \
	{                                                                                                                  \
		(void)mo;                                                                                                      \
		atomic_pre(a, bits / 8, PC);                                                                                   \
		return __atomic_fetch_sub(a, v, __ATOMIC_SEQ_CST);                                                             \
	}                                                                                                                  \
	type __tsan_atomic##bits##_fetch_or(volatile type *a, type v, int mo)                                              \
	{                                                                                                                  \
		(void)mo;                                                                                                      \
		atomic_pre(a, bits / 8, PC);                                                                                   \
		return __atomic_fetch_or(a, v, __ATOMIC_SEQ_CST);                                                              \
	}                                                                                                                  \
	type __tsan_atomic##bits##_fetch_and(volatile type *a, type v, int mo)                                             \
	{                                                                                                                  \
		(void)mo;                                                                                                      \
		atomic_pre(a, bits / 8, PC);                                                                                   \
		return __atomic_fetch_and(a, v, __ATOMIC_SEQ_CST);                                                             \
	}                                                                                                                  \
	type __tsan_atomic##bits##_exchange(volatile type *a, type v, int mo)                                              \
	{                                                                                                                  \
		(void)mo;                                                                                                      \
		atomic_pre(a, bits / 8, PC);                                                                                   \
		return __atomic_exchange_n(a, v, __ATOMIC_SEQ_CST);                                                            \
	}                                                                                                                  \
	type __tsan_atomic##bits##_load(const volatile type *a, int mo)                                                    \
	{                                                                                                                  \
		atomic_pre_mo((volatile void *)a, bits / 8, PC, mo, 1, 0);                                                     \
		return __atomic_load_n(a, __ATOMIC_SEQ_CST);                                                                   \
	}                                                                                                                  \
	void __tsan_atomic##bits##_store(volatile type *a, type v, int mo)                                                 \
	{                                                                                                                  \
		atomic_pre_mo(a, bits / 8, PC, mo, 0, 1);                                                                      \
		__atomic_store_n(a, v, __ATOMIC_SEQ_CST);                                                                      \
	}                                                                                                                  \
	type __tsan_atomic##bits##_compare_exchange_val(volatile type *a, type c, type v, int mo, int fmo)                 \
	{                                                                                                                  \
		(void)mo;                                                                                                      \
		(void)fmo;                                                                                                     \
		atomic_pre(a, bits / 8, PC);                                                                                   \
		__atomic_compare_exchange_n(a, &c, v, 0, __ATOMIC_SEQ_CST, __ATOMIC_SEQ_CST);                                  \
		return c;                                                                                                      \
	}                                                                                                                  \
	int __tsan_atomic##bits##_compare_exchange_strong(volatile type *a, type *c, type v, int mo, int fmo)              \
	{                                                                                                                  \
		(void)mo;                                                                                                      \
		(void)fmo;                                                                                                     \
		atomic_pre(a, bits / 8, PC);                                                                                   \
		return __atomic_compare_exchange_n(a, c, v, 0, __ATOMIC_SEQ_CST, __ATOMIC_SEQ_CST);                            \
	}                                                                                                                  \
	int __tsan_atomic##bits##_compare_exchange_weak(volatile type *a, type *c, type v, int mo, int fmo)                \
	{                                                                                                                  \
		(void)mo;                                                                                                      \
		(void)fmo;                                                                                                     \
		atomic_pre(a, bits / 8, PC);                                                                                   \
		return __atomic_compare_exchange_n(a, c, v, 0, __ATOMIC_SEQ_CST, __ATOMIC_SEQ_CST);                            \
	}
DEF_ATOMICS(8, unsigned char)
DEF_ATOMICS(16, unsigned short)
DEF_ATOMICS(32, unsigned int)
DEF_ATOMICS(64, unsigned long)
void __tsan_atomic_thread_fence(int mo) { (void)mo; }
void __tsan_atomic_signal_fence(int mo) { (void)mo; }

/* ------------------------------------------------------------------ pthread mutexes used by the code under test
 * (json-c has none today; a lock-based implementation of the reference count would be just as valid, so the simulator must
 * not dead-lock on one: a thread that finds the mutex taken hands the token to somebody else instead of blocking for real) */
#include <errno.h>
int __real_pthread_mutex_lock(pthread_mutex_t *m);
int __real_pthread_mutex_unlock(pthread_mutex_t *m);
int __real_pthread_mutex_trylock(pthread_mutex_t *m);
static int force_switch(void)
{
	int me = t_tid, runnable[SIMTHR_MAX], n = 0;
	for (int i = 1; i <= g_nthreads; i++)
		if (g_state[i] == 1 && i != me)
			runnable[n++] = i;
	if (!n)
		return 0;
	g_stats.yields++;
	g_step++;
	g_seq++;
	return switch_to(runnable[rnd() % (uint64_t)n]);
}
int __wrap_pthread_mutex_lock(pthread_mutex_t *m)
{
	if (!g_active || t_tid <= 0)
		return __real_pthread_mutex_lock(m);
	yield_point(g_cfg.switch_permille_atomic);
	int spins = 0;
	while (__real_pthread_mutex_trylock(m) == EBUSY)
	{
		if (!force_switch() && ++spins > 1000000)
			return __real_pthread_mutex_lock(m); /* nobody else can run: genuine dead-lock, let the watchdog report it */
	}
	atomic_sync((uintptr_t)m, 2 /* acquire */, 0, 0);
	return 0;
}
int __wrap_pthread_mutex_trylock(pthread_mutex_t *m)
{
	int r = __real_pthread_mutex_trylock(m);
	if (r == 0 && g_active && t_tid >= 0)
		atomic_sync((uintptr_t)m, 2, 0, 0);
	return r;
}
int __wrap_pthread_mutex_unlock(pthread_mutex_t *m)
{
	if (g_active && t_tid >= 0)
		atomic_sync((uintptr_t)m, 3 /* release */, 0, 0);
	int r = __real_pthread_mutex_unlock(m);
	if (g_active && t_tid > 0)
		yield_point(g_cfg.switch_permille_atomic);
	return r;
}
