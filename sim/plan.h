// A simulated run is a Plan: configuration + list of ops, each op carrying its own fault
// attachments.  Arguments are interpreted modulo the current state by the property, so that
// deleting ops/faults (shrinking) keeps the rest meaningful.  Text (de)serialisation = replay file.
#pragma once
#include <cstdint>
#include <map>
#include <string>
#include <vector>

struct Fault
{
	std::string kind;        // e.g. "alloc" (fail allocation #a[0] inside this op), "rd" (read script) ...
	std::vector<int64_t> a;
};
struct Op
{
	std::string kind;
	std::vector<int64_t> a;
	std::string data;          // raw bytes
	std::vector<Fault> faults;
	int64_t arg(size_t i, int64_t dflt = 0) const { return i < a.size() ? a[i] : dflt; }
};
struct Plan
{
	std::string prop;
	uint64_t seed = 0;                         // run seed that generated it (informational after shrinking)
	std::map<std::string, int64_t> cfg;        // numeric configuration knobs
	std::map<std::string, std::string> scfg;   // string configuration knobs
	std::vector<Op> ops;
	// filled in when written as a replay file
	std::string expect_class;
	std::string detail;
	uint64_t fingerprint = 0;
	// history replay: the violation needs the runs a worker process executed before it (state left behind by earlier runs);
	// the file then names the index sequence start, start+step, ..., last instead of carrying ops
	uint64_t hist_seed = 0, hist_start = 0, hist_last = 0, hist_step = 0;
	int hist_tier = 0;
	bool is_history = false;
	int64_t c(const std::string &k, int64_t dflt = 0) const
	{
		auto it = cfg.find(k);
		return it == cfg.end() ? dflt : it->second;
	}
	std::string to_text() const;
	static bool from_text(const std::string &txt, Plan &out, std::string &err);
	std::string brief(size_t maxops = 12) const; // compact one-line rendering for evidence samples
	size_t weight() const;                        // size measure used by the shrinker
};
std::string hexenc(const std::string &s);
std::string hexdec(const std::string &s);
std::string printable(const std::string &s, size_t max = 80);
bool read_file(const std::string &path, std::string &out);
bool write_file(const std::string &path, const std::string &data);
