#include "core.h"
#include <cstdio>
#include <cstdlib>
#include <string>
#include <sys/personality.h>
#include <unistd.h>

// classify sanitizer hits: exit code 77, no leak sanitizer (leaks are found by exact allocator accounting)
extern "C" __attribute__((used, visibility("default"))) const char *__asan_default_options()
{
	return "exitcode=77:detect_leaks=0:abort_on_error=0:allocator_may_return_null=1:handle_abort=0:print_summary=1:detect_stack_use_after_return=0:external_symbolizer_path=/usr/bin/llvm-symbolizer-14:quarantine_size_mb=4:thread_local_quarantine_size_kb=16";
}
extern "C" __attribute__((used, visibility("default"))) const char *__ubsan_default_options()
{
	return "exitcode=77:print_stacktrace=0:halt_on_error=1:print_summary=1";
}

int main(int argc, char **argv)
{
	setvbuf(stdout, nullptr, _IOLBF, 0);
	// address-space randomisation off (inherited by every worker and replay child): a broken library may make results depend on
	// pointer VALUES (bytes of an address parsed as text, address-ordered containers ...); with fixed layouts such a violation
	// replays like any other.  Best effort: if the kernel or a sandbox refuses, carry on as before.
	if (!getenv("JSIM_ASLR_OFF"))
	{
		int pers = personality(0xffffffff);
		if (pers != -1 && !(pers & ADDR_NO_RANDOMIZE) && personality(pers | ADDR_NO_RANDOMIZE) != -1)
		{
			setenv("JSIM_ASLR_OFF", "1", 1);
			execv("/proc/self/exe", argv);
			// exec failed: continue in this process
		}
	}
	{
		const char *vd = getenv("VERIF_DIR");
		std::string lp = std::string(vd && *vd ? vd : "/verif") + "/build/locale";
		setenv("LOCPATH", lp.c_str(), 0);
	} // synthesized comma-decimal locale (locale/build_locale.sh)
	return driver_main(argc, argv);
}
