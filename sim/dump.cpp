#include "dump.h"
#include "plan.h"
#include <cerrno>
#include <cinttypes>
#include <cstdio>
#include <cstring>

std::string node_bytes(struct json_object *o)
{
	int n = json_object_get_string_len(o);
	const char *s = json_object_get_string(o);
	return std::string(s ? s : "", (size_t)(n < 0 ? 0 : n));
}
std::string ser(struct json_object *o, int flags)
{
	size_t len = 0;
	const char *s = json_object_to_json_string_length(o, flags, &len);
	if (!s)
		return "<NULL-RESULT>";
	return std::string(s, len);
}
std::string typed_dump(struct json_object *o, int depth)
{
	if (depth > 300)
		return "<too-deep>";
	if (!o)
		return "null";
	char b[96];
	switch (json_object_get_type(o))
	{
	case json_type_null: return "null";
	case json_type_boolean: return json_object_get_boolean(o) ? "b:1" : "b:0";
	case json_type_int:
	{
		int64_t i = json_object_get_int64(o);
		uint64_t u = json_object_get_uint64(o);
		if (u > (uint64_t)INT64_MAX)
			snprintf(b, sizeof b, "u:%" PRIu64, u);
		else
			snprintf(b, sizeof b, "i:%" PRId64, i);
		return b;
	}
	case json_type_double:
	{
		double d = json_object_get_double(o);
		uint64_t bits;
		memcpy(&bits, &d, 8);
		if (d != d)
			bits = 0x7ff8000000000000ULL; // all NaNs alike
		snprintf(b, sizeof b, "d:%016" PRIx64 ":", bits);
		return std::string(b) + ser(o, JSON_C_TO_STRING_PLAIN);
	}
	case json_type_string:
	{
		std::string s = node_bytes(o);
		const char *p = json_object_get_string(o);
		snprintf(b, sizeof b, "s%zu:", s.size());
		std::string r = std::string(b) + hexenc(s);
		if (p && p[s.size()] != '\0')
			r += "<NO-NUL>";
		return r;
	}
	case json_type_array:
	{
		std::string r = "[";
		size_t n = json_object_array_length(o);
		for (size_t i = 0; i < n; i++)
		{
			if (i)
				r += ",";
			r += typed_dump(json_object_array_get_idx(o, i), depth + 1);
		}
		return r + "]";
	}
	case json_type_object:
	{
		std::string r = "{";
		bool first = true;
		struct json_object_iterator it = json_object_iter_begin(o), end = json_object_iter_end(o);
		while (!json_object_iter_equal(&it, &end))
		{
			if (!first)
				r += ",";
			first = false;
			const char *k = json_object_iter_peek_name(&it);
			r += "k" + hexenc(k ? k : "<null-key>") + "=";
			r += typed_dump(json_object_iter_peek_value(&it), depth + 1);
			json_object_iter_next(&it);
		}
		return r + "}";
	}
	}
	return "<bad-type>";
}
