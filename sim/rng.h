// Single source of randomness of a simulated run: xoshiro256** seeded by splitmix64.
#pragma once
#include <cstdint>
#include <cstddef>
#include <string>
#include <vector>

static inline uint64_t splitmix64(uint64_t &x)
{
	uint64_t z = (x += 0x9e3779b97f4a7c15ULL);
	z = (z ^ (z >> 30)) * 0xbf58476d1ce4e5b9ULL;
	z = (z ^ (z >> 27)) * 0x94d049bb133111ebULL;
	return z ^ (z >> 31);
}
static inline uint64_t mix64(uint64_t a, uint64_t b)
{
	uint64_t x = a ^ (b * 0x9e3779b97f4a7c15ULL) ^ 0x5851f42d4c957f2dULL;
	splitmix64(x);
	return splitmix64(x);
}
static inline uint64_t fnv1a(const void *p, size_t n, uint64_t h = 1469598103934665603ULL)
{
	const unsigned char *c = (const unsigned char *)p;
	for (size_t i = 0; i < n; i++)
	{
		h ^= c[i];
		h *= 1099511628211ULL;
	}
	return h;
}
static inline uint64_t strhash(const std::string &s) { return fnv1a(s.data(), s.size()); }

struct Rng
{
	uint64_t s[4];
	explicit Rng(uint64_t seed)
	{
		uint64_t x = seed;
		for (int i = 0; i < 4; i++)
			s[i] = splitmix64(x);
	}
	static inline uint64_t rotl(uint64_t x, int k) { return (x << k) | (x >> (64 - k)); }
	uint64_t next()
	{
		uint64_t r = rotl(s[1] * 5, 7) * 9, t = s[1] << 17;
		s[2] ^= s[0];
		s[3] ^= s[1];
		s[1] ^= s[2];
		s[0] ^= s[3];
		s[2] ^= t;
		s[3] = rotl(s[3], 45);
		return r;
	}
	// uniform in [0,n)  (n>0)
	uint64_t below(uint64_t n) { return n ? next() % n : 0; }
	// inclusive range
	int64_t range(int64_t lo, int64_t hi)
	{
		if (hi <= lo)
			return lo;
		return lo + (int64_t)below((uint64_t)(hi - lo) + 1);
	}
	bool chance(unsigned num, unsigned den) { return below(den) < num; }
	template <class T> const T &pick(const std::vector<T> &v) { return v[below(v.size())]; }
	template <class T, size_t N> const T &pick(const T (&v)[N]) { return v[below(N)]; }
};
