// Typed dump of a json-c tree through the public API: type, integer signedness and value, double bit
// pattern plus the text it serialises to (retained source text), string length and bytes, member order.
// Never uses json_object_equal (NaN != NaN there).
#pragma once
#include <string>
extern "C" {
#include "json.h"
}
std::string typed_dump(struct json_object *o, int depth = 0);
// bytes of a string node (length-counted)
std::string node_bytes(struct json_object *o);
// plain serialisation as std::string ("<NULL-RESULT>" if the serializer returned NULL)
std::string ser(struct json_object *o, int flags = 0);
