#include "plan.h"
#include <cstdio>
#include <cstdlib>
#include <cstring>
#include <sstream>

std::string hexenc(const std::string &s)
{
	static const char *h = "0123456789abcdef";
	std::string o;
	o.reserve(s.size() * 2);
	for (unsigned char c : s)
	{
		o.push_back(h[c >> 4]);
		o.push_back(h[c & 15]);
	}
	return o;
}
static int hv(char c)
{
	if (c >= '0' && c <= '9')
		return c - '0';
	if (c >= 'a' && c <= 'f')
		return c - 'a' + 10;
	if (c >= 'A' && c <= 'F')
		return c - 'A' + 10;
	return -1;
}
std::string hexdec(const std::string &s)
{
	std::string o;
	for (size_t i = 0; i + 1 < s.size(); i += 2)
	{
		int a = hv(s[i]), b = hv(s[i + 1]);
		if (a < 0 || b < 0)
			break;
		o.push_back((char)(a * 16 + b));
	}
	return o;
}
std::string printable(const std::string &s, size_t max)
{
	std::string o;
	for (unsigned char c : s)
	{
		if (o.size() >= max)
		{
			o += "...";
			break;
		}
		if (c == '\\')
			o += "\\\\";
		else if (c >= 32 && c < 127)
			o.push_back((char)c);
		else
		{
			char b[8];
			snprintf(b, sizeof b, "\\x%02x", c);
			o += b;
		}
	}
	return o;
}

std::string Plan::to_text() const
{
	std::ostringstream o;
	o << "jsim-replay 1\n";
	o << "prop " << prop << "\n";
	o << "seed " << seed << "\n";
	if (!expect_class.empty())
		o << "class " << expect_class << "\n";
	if (!detail.empty())
	{
		std::string d = detail;
		for (auto &ch : d)
			if (ch == '\n')
				ch = ' ';
		o << "detail " << d << "\n";
	}
	if (fingerprint)
	{
		char b[32];
		snprintf(b, sizeof b, "%016llx", (unsigned long long)fingerprint);
		o << "fingerprint " << b << "\n";
	}
	if (is_history)
		o << "history " << hist_seed << " " << hist_tier << " " << hist_step << " " << hist_start << " " << hist_last << "   # VERIF_SEED tier step first-index last-index\n";
	for (auto &kv : cfg)
		o << "cfg " << kv.first << " " << kv.second << "\n";
	for (auto &kv : scfg)
		o << "scfg " << kv.first << " " << hexenc(kv.second) << "\n";
	for (auto &op : ops)
	{
		o << "op " << op.kind << " " << op.a.size();
		for (auto v : op.a)
			o << " " << v;
		o << " " << (op.data.empty() ? std::string("-") : hexenc(op.data));
		if (!op.data.empty())
			o << "   # " << printable(op.data, 60);
		o << "\n";
		for (auto &f : op.faults)
		{
			o << "  fault " << f.kind << " " << f.a.size();
			for (auto v : f.a)
				o << " " << v;
			o << "\n";
		}
	}
	o << "end\n";
	return o.str();
}

bool Plan::from_text(const std::string &txt, Plan &out, std::string &err)
{
	std::istringstream in(txt);
	std::string line;
	out = Plan();
	bool header = false, ended = false;
	while (std::getline(in, line))
	{
		size_t hash = line.find("   # ");
		if (hash != std::string::npos)
			line = line.substr(0, hash);
		std::istringstream ls(line);
		std::string w;
		if (!(ls >> w))
			continue;
		if (w == "jsim-replay")
			header = true;
		else if (w == "prop")
			ls >> out.prop;
		else if (w == "seed")
			ls >> out.seed;
		else if (w == "class")
			ls >> out.expect_class;
		else if (w == "detail")
		{
			std::getline(ls, out.detail);
			if (!out.detail.empty() && out.detail[0] == ' ')
				out.detail.erase(0, 1);
		}
		else if (w == "fingerprint")
		{
			std::string h;
			ls >> h;
			out.fingerprint = strtoull(h.c_str(), nullptr, 16);
		}
		else if (w == "history")
		{
			ls >> out.hist_seed >> out.hist_tier >> out.hist_step >> out.hist_start >> out.hist_last;
			out.is_history = true;
		}
		else if (w == "cfg")
		{
			std::string k;
			int64_t v;
			ls >> k >> v;
			out.cfg[k] = v;
		}
		else if (w == "scfg")
		{
			std::string k, v;
			ls >> k >> v;
			out.scfg[k] = hexdec(v);
		}
		else if (w == "op")
		{
			Op op;
			size_t n = 0;
			ls >> op.kind >> n;
			for (size_t i = 0; i < n; i++)
			{
				int64_t v = 0;
				ls >> v;
				op.a.push_back(v);
			}
			std::string d;
			ls >> d;
			if (d != "-" && !d.empty())
				op.data = hexdec(d);
			out.ops.push_back(op);
		}
		else if (w == "fault")
		{
			if (out.ops.empty())
			{
				err = "fault before op";
				return false;
			}
			Fault f;
			size_t n = 0;
			ls >> f.kind >> n;
			for (size_t i = 0; i < n; i++)
			{
				int64_t v = 0;
				ls >> v;
				f.a.push_back(v);
			}
			out.ops.back().faults.push_back(f);
		}
		else if (w == "end")
			ended = true;
		else if (w[0] == '#')
			continue;
		else
		{
			err = "unknown line: " + line;
			return false;
		}
	}
	if (!header || !ended)
	{
		err = "not a complete jsim replay file";
		return false;
	}
	return true;
}

std::string Plan::brief(size_t maxops) const
{
	std::ostringstream o;
	o << "{";
	bool first = true;
	for (auto &kv : cfg)
	{
		o << (first ? "" : " ") << kv.first << "=" << kv.second;
		first = false;
	}
	for (auto &kv : scfg)
	{
		o << (first ? "" : " ") << kv.first << "='" << printable(kv.second, 24) << "'";
		first = false;
	}
	o << "}";
	size_t n = 0;
	for (auto &op : ops)
	{
		if (n++ >= maxops)
		{
			o << " ...(+" << (ops.size() - maxops) << " ops)";
			break;
		}
		o << " " << op.kind << "(";
		for (size_t i = 0; i < op.a.size(); i++)
			o << (i ? "," : "") << op.a[i];
		if (!op.data.empty())
			o << (op.a.empty() ? "" : ",") << "'" << printable(op.data, 32) << "'";
		o << ")";
		for (auto &f : op.faults)
		{
			o << "!" << f.kind;
			for (auto v : f.a)
				o << ":" << v;
		}
	}
	return o.str();
}

size_t Plan::weight() const
{
	size_t w = 0;
	for (auto &op : ops)
	{
		w += 16 + op.data.size() + 4 * op.faults.size();
		for (auto v : op.a)
			w += (v != 0);
		for (auto &f : op.faults)
			w += f.a.size();
	}
	return w;
}

bool read_file(const std::string &path, std::string &out)
{
	FILE *f = fopen(path.c_str(), "rb");
	if (!f)
		return false;
	char buf[65536];
	size_t n;
	out.clear();
	while ((n = fread(buf, 1, sizeof buf, f)) > 0)
		out.append(buf, n);
	fclose(f);
	return true;
}
bool write_file(const std::string &path, const std::string &data)
{
	std::string tmp = path + ".tmp";
	FILE *f = fopen(tmp.c_str(), "wb");
	if (!f)
		return false;
	bool ok = fwrite(data.data(), 1, data.size(), f) == data.size();
	ok = (fclose(f) == 0) && ok;
	if (ok)
		ok = rename(tmp.c_str(), path.c_str()) == 0;
	return ok;
}
