// Grammar-based generator of JSON(-ish) texts.  Its purpose in the simulations is to create *in-flight scanner state*
// (tokens of every kind, escapes, surrogates, multi-byte characters, comments, exponent/sign shapes, concatenated
// documents) for chunk cuts, cancellations and allocation failures to land in.
#pragma once
#include "../sim/rng.h"
#include <string>
#include <vector>

struct GenOpts
{
	int max_depth = 4;      // nesting of generated containers
	int max_width = 4;      // members/elements per container
	bool weird = true;      // allow json-c extensions and malformed pieces (single quotes, comments, NaN, mixed case ...)
	bool non_ascii = true;  // multi-byte UTF-8 and raw bytes inside strings
	bool doubles = true;
	int size_budget = 200;  // rough cap on produced bytes
};

struct JsonGen
{
	Rng &r;
	GenOpts o;
	std::string out;
	JsonGen(Rng &rng, const GenOpts &opts) : r(rng), o(opts) {}

	void ws()
	{
		int n = (int)r.below(4);
		if (n == 3)
			n = (int)r.below(4);
		else
			n = n == 2 ? 1 : 0;
		for (int i = 0; i < n; i++)
			out.push_back(" \t\n\r"[r.below(4)]);
		if (o.weird && r.chance(1, 25))
		{
			if (r.chance(1, 2))
			{
				out += "/*";
				out += filler((int)r.below(8), true);
				out += "*/";
			}
			else
			{
				out += "//";
				out += filler((int)r.below(8), false);
				out += "\n";
			}
		}
	}
	std::string filler(int n, bool block)
	{
		std::string s;
		for (int i = 0; i < n; i++)
		{
			char c = "ab *\"/{[1e-"[r.below(11)];
			if (!block && c == '\n')
				c = 'n';
			s.push_back(c);
		}
		if (block)
		{
			// avoid accidentally closing the comment early only most of the time
			size_t p;
			if (!r.chance(1, 8))
				while ((p = s.find("*/")) != std::string::npos)
					s[p] = 'x';
		}
		return s;
	}
	void hex4(unsigned v)
	{
		static const char *lo = "0123456789abcdef", *up = "0123456789ABCDEF";
		const char *h = r.chance(1, 2) ? lo : up;
		out += "\\u";
		for (int s = 12; s >= 0; s -= 4)
			out.push_back(h[(v >> s) & 15]);
	}
	void utf8(unsigned cp)
	{
		if (cp < 0x80)
			out.push_back((char)cp);
		else if (cp < 0x800)
		{
			out.push_back((char)(0xc0 | (cp >> 6)));
			out.push_back((char)(0x80 | (cp & 0x3f)));
		}
		else if (cp < 0x10000)
		{
			out.push_back((char)(0xe0 | (cp >> 12)));
			out.push_back((char)(0x80 | ((cp >> 6) & 0x3f)));
			out.push_back((char)(0x80 | (cp & 0x3f)));
		}
		else
		{
			out.push_back((char)(0xf0 | (cp >> 18)));
			out.push_back((char)(0x80 | ((cp >> 12) & 0x3f)));
			out.push_back((char)(0x80 | ((cp >> 6) & 0x3f)));
			out.push_back((char)(0x80 | (cp & 0x3f)));
		}
	}
	void string_body(char quote)
	{
		int n = (int)r.below(7);
		if (r.chance(1, 12))
			n = (int)r.range(20, 70); // long enough to cross the 32-byte print-buffer boundary
		for (int i = 0; i < n; i++)
		{
			switch (r.below(14))
			{
			case 0:
			case 1:
			case 2:
			case 3:
			case 4: out.push_back("abcxyzABC019 _-.,:;[]{}"[r.below(23)]); break;
			case 5: out += "\\"; out.push_back("\"\\/bfnrt"[r.below(8)]); break;
			case 6: hex4((unsigned)r.below(0x80)); break;
			case 7: hex4((unsigned)r.range(0x80, 0xd7ff)); break;
			case 8: // surrogate pair
				hex4((unsigned)r.range(0xd800, 0xdbff));
				hex4((unsigned)r.range(0xdc00, 0xdfff));
				break;
			case 9: // surrogate halves in odd company
				switch (r.below(5))
				{
				case 0: hex4((unsigned)r.range(0xd800, 0xdbff)); break;                       // lone high
				case 1: hex4((unsigned)r.range(0xdc00, 0xdfff)); break;                       // lone low
				case 2: hex4((unsigned)r.range(0xd800, 0xdbff)); out += "\\n"; break;         // high + other escape
				case 3: hex4((unsigned)r.range(0xd800, 0xdbff)); hex4((unsigned)r.range(0xd800, 0xdbff)); break; // high high
				default: hex4((unsigned)r.range(0xd800, 0xdbff)); hex4((unsigned)r.below(0x80)); break;
				}
				break;
			case 10:
				if (o.non_ascii)
					utf8((unsigned)r.pick(std::vector<unsigned>{0xe9, 0x7ff, 0x800, 0x20ac, 0xffff, 0x10000, 0x1f600, 0x10ffff}));
				else
					out.push_back('u');
				break;
			case 11:
				if (o.weird && o.non_ascii && r.chance(1, 3))
					out.push_back((char)r.range(0x80, 0xff)); // invalid UTF-8 byte
				else if (o.weird && r.chance(1, 3))
					out.push_back((char)r.range(1, 0x1f)); // control character (strict mode rejects)
				else
					out.push_back(quote == '"' ? '\'' : '"');
				break;
			case 12:
				if (o.weird && r.chance(1, 6))
				{
					out += "\\";
					out.push_back("uxq0"[r.below(4)]); // broken escape
					if (r.chance(1, 2))
						out += "12";
				}
				else
					out.push_back('e');
				break;
			default:
			{
				char c = (char)r.range(0x23, 0x5b);
				out.push_back(c == quote ? 'q' : c);
				break;
			}
			}
		}
	}
	void string()
	{
		char q = (o.weird && r.chance(1, 8)) ? '\'' : '"';
		out.push_back(q);
		string_body(q);
		if (!(o.weird && r.chance(1, 60)))
			out.push_back(q);
	}
	void digits(int lo, int hi)
	{
		int n = (int)r.range(lo, hi);
		for (int i = 0; i < n; i++)
			out.push_back((char)('0' + r.below(10)));
	}
	void number()
	{
		switch (r.below(o.weird ? 16 : 8))
		{
		case 0: out += "0"; break;
		case 1: out += "-0"; break;
		case 2:
			if (r.chance(1, 2))
				out += "-";
			out.push_back((char)('1' + r.below(9)));
			digits(0, 6);
			break;
		case 3: // around the 64-bit limits
			out += r.pick(std::vector<std::string>{"9223372036854775807", "9223372036854775808", "-9223372036854775808", "-9223372036854775809",
			                                         "18446744073709551615", "18446744073709551616", "123456789012345678901234567890"});
			break;
		case 4:
			if (r.chance(1, 2))
				out += "-";
			digits(1, 4);
			out += ".";
			digits(1, 8);
			break;
		case 5:
			if (r.chance(1, 2))
				out += "-";
			digits(1, 3);
			if (r.chance(1, 2))
			{
				out += ".";
				digits(1, 4);
			}
			out += r.chance(1, 2) ? "e" : "E";
			if (r.chance(2, 3))
				out += r.chance(1, 2) ? "+" : "-";
			digits(1, 3);
			break;
		case 6: out += r.pick(std::vector<std::string>{"1e308", "1e309", "-1e309", "4.9e-324", "1e-400", "0.1", "2.5", "1E5", "1e+5", "0e0", "1.7976931348623157e308"}); break;
		case 7: digits(1, 2); break;
		// ---- malformed / extension shapes (only with weird)
		case 8: out += r.pick(std::vector<std::string>{"-", "--1", "-+1", "+1", "1-", "1+", "1-2", "12-3", "-1-", "1--"}); break;
		case 9: out += r.pick(std::vector<std::string>{"1.", "1.e5", ".5", "-.5", "1..2", "1.2.3", "1.+5", "1.-5", "0.e"}); break;
		case 10: out += r.pick(std::vector<std::string>{"1e", "1e+", "1e-", "1E", "1ee5", "1e5e5", "1e+-5", "1e5-", "1e5+3", "1e5.5", "2e", "1.5e+"}); break;
		case 11: out += r.pick(std::vector<std::string>{"00", "01", "-01", "007", "0x10", "1a", "1_0"}); break;
		case 12: out += r.pick(std::vector<std::string>{"Infinity", "-Infinity", "infinity", "-infinity", "INFINITY", "-iNfInItY", "Inf", "-Inf", "-I", "Infinit", "-1Infinity", "-Infinityx"}); break;
		case 13: out += r.pick(std::vector<std::string>{"NaN", "nan", "NAN", "nAn", "Na", "NaNa", "-NaN"}); break;
		case 14:
		{
			// random soup of number characters
			int n = (int)r.range(1, 8);
			for (int i = 0; i < n; i++)
				out.push_back("0123456789.eE+-"[r.below(15)]);
			break;
		}
		default: out += "1"; break;
		}
	}
	void literal()
	{
		static const std::vector<std::string> good = {"true", "false", "null"};
		static const std::vector<std::string> odd = {"TRUE", "False", "nULL", "Null", "tru", "fals", "nul", "truee", "nulll", "t", "f", "n", "tRuE", "falsey", "none"};
		if (o.weird && r.chance(1, 4))
			out += r.pick(odd);
		else
			out += r.pick(good);
	}
	void value(int depth)
	{
		if ((int)out.size() > o.size_budget)
		{
			out += "0";
			return;
		}
		unsigned k = (unsigned)r.below(10);
		if (depth >= o.max_depth && k < 4)
			k = 4 + k;
		switch (k)
		{
		case 0:
		case 1: // object
		{
			out += "{";
			int n = (int)r.below((uint64_t)o.max_width + 1);
			for (int i = 0; i < n; i++)
			{
				ws();
				if (o.weird && r.chance(1, 40))
					literal(); // unquoted key
				else
					string();
				ws();
				if (!(o.weird && r.chance(1, 50)))
					out += ":";
				ws();
				value(depth + 1);
				ws();
				if (i + 1 < n || (o.weird && r.chance(1, 15)))
					out += ",";
			}
			ws();
			if (!(o.weird && r.chance(1, 50)))
				out += "}";
			break;
		}
		case 2:
		case 3: // array
		{
			out += "[";
			int n = (int)r.below((uint64_t)o.max_width + 1);
			for (int i = 0; i < n; i++)
			{
				ws();
				value(depth + 1);
				ws();
				if (i + 1 < n || (o.weird && r.chance(1, 15)))
					out += ",";
			}
			ws();
			if (!(o.weird && r.chance(1, 50)))
				out += "]";
			break;
		}
		case 4:
		case 5: string(); break;
		case 6:
		case 7: number(); break;
		case 8: literal(); break;
		default:
			if (o.doubles)
				number();
			else
				literal();
			break;
		}
	}
	// a stream of 1..n documents
	std::string stream(int maxdocs)
	{
		out.clear();
		int n = (int)r.range(1, maxdocs);
		for (int i = 0; i < n; i++)
		{
			ws();
			value(0);
			if (i + 1 < n)
			{
				// separators between concatenated documents (or none)
				switch (r.below(5))
				{
				case 0: break;
				case 1: out += " "; break;
				case 2: out += "\n"; break;
				case 3: out.push_back('\0'); break;
				default: ws(); break;
				}
			}
		}
		ws();
		return out;
	}
};

// mutations of a text: byte flips, deletions, insertions (incl. NUL), truncation, splices of interesting tokens
static inline std::string mutate_text(Rng &r, std::string s, int rounds)
{
	static const std::vector<std::string> toks = {"\\u", "\\ud83d", "\\ude00", "\"", "'", "\\", "/*", "*/", "//", "\n", "e", "E", "-", "+", ".", "Infinity", "NaN", "null", "true",
	                                              "{", "}", "[", "]", ",", ":", std::string(1, '\0'), "\xc3", "\xe2\x82", "\xf0\x9f\x98", "\xff", "\x80", "\x01"};
	for (int i = 0; i < rounds; i++)
	{
		size_t pos = s.empty() ? 0 : (size_t)r.below(s.size() + 1);
		switch (r.below(6))
		{
		case 0:
			if (!s.empty())
				s[pos % s.size()] = (char)r.below(256);
			break;
		case 1:
			if (!s.empty())
				s.erase(pos % s.size(), (size_t)r.range(1, 3));
			break;
		case 2: s.insert(pos, r.pick(toks)); break;
		case 3:
			if (!s.empty())
				s.resize((size_t)r.below(s.size()));
			break;
		case 4:
			if (s.size() > 2)
			{
				size_t a = (size_t)r.below(s.size()), n = (size_t)r.range(1, 6);
				s.insert(pos, s.substr(a, n));
			}
			break;
		default: s.insert(pos, 1, "\"\\/{}[],:'*"[r.below(11)]); break;
		}
	}
	return s;
}
