// C05 — every node is destroyed exactly once, exactly when its last owner releases it.
// Simulated: a client holding a pool of handles (each handle = one owned reference) issuing histories of constructors, parse,
// get, put, object add/replace/delete, array add/put/insert/delete-range, set_userdata/set_serializer, deep_copy,
// json_pointer_set and small json_patch_apply; faults: naturally failing ops (out-of-range, self-insertion, dangling paths)
// and, in the faulted batch, an allocation failure attached to an op.
// Reference model = the ownership graph: before and after every op the trees of all handles are walked through the public
// API (node identity = address while alive).  refcount(n) = handles on n + container slots on n.  Oracle after every op:
//   destroyed-in-this-op (observed twice: free(node) at the allocator seam, userdata delete callbacks)
//        == nodes known before the op that no handle reaches any more,
//   json_object_put returns 1 exactly when the model count of its argument was 1,
//   a failed op leaves the caller's reference with the caller, nodes still referenced stay readable (ASan guards the walk),
//   at the end, after the client released every handle, no allocation is left.
#include "gen_json.h"
#include "tok_util.h"
#include <algorithm>
extern "C" {
#include "json_pointer.h"
#include "json_patch.h"
}

namespace
{
struct C05 : Property
{
	const char *id() const override { return "C05"; }
	const char *level() const override { return "exploration"; }
	uint64_t runs(Tier t) const override { return t == QUICK ? 150000 : 5000000; }
	std::string rule() const override
	{
		return "seeded histories (<=60 ops) over a pool of 8 handles: constructors, parse, get, put, object add/add_ex/replace/delete, array add/put_idx/insert_idx/del_idx, "
		       "set_userdata, set_serializer, deep_copy (tracking shallow-copy), json_pointer_set, json_patch_apply (in place / copy_from); shared nodes (DAGs) allowed, cycles never; "
		       "odd run indices attach allocation failures. A run is non-trivial if some op destroyed a node that was not the op's direct argument (cascade), released a last "
		       "reference through a container mutation, or an op failed; distinct = distinct sets of (op, outcome, released-last-ref?, cascade size class, shared?) keys.";
	}
	std::vector<std::string> assumptions() const override
	{
		return {"documented ownership rules followed: a value handed to a container is an owned reference; no cycles; KEY_IS_NEW only for absent keys; container calls only on containers",
		        "node identity is the node address while it is alive; destruction is observed at free() of that address behind the allocator seam and by json_object_set_userdata callbacks on "
		        "the tracked subset of nodes",
		        "ownership graph is read back through the public API after every op, so the model does not hard-code whether pointer/patch/deep_copy share or copy"};
	}
	std::vector<std::string> probes() const override
	{
		return {"put.last_reference_frees", "put.not_last_reference", "cascade.children_destroyed_with_parent", "child_outlives_parent", "replace.releases_old_value", "replace.same_key_twice",
		        "delete.member_with_extra_ref_survives", "array.put_over_occupied_slot", "array.del_range_releases", "array.out_of_range_refused", "object.self_add_refused",
		        "userdata.replaced_callback_runs", "deep_copy.ok", "pointer_set.ok", "pointer_set.root_replaced_by_itself", "pointer_set.failed_value_kept", "patch.ok", "patch.failed", "patch.copy_from", "shared_node_in_two_containers",
		        "alloc_failure.value_kept_by_caller", "parse.tree_from_parser", "userdata.same_pointer_reinstalled", "object.filled_past_growth_threshold", "deep_copy.refused_midway_unwound", "userdata.deleter_with_null_userdata"};
	}

	// ------------------------------------------------------------------ generation
	Plan generate(Rng &r, Tier, uint64_t index) override
	{
		Plan p;
		bool faulted = index & 1;
		p.cfg["faulted"] = faulted;
		p.cfg["track_pct"] = (int64_t)r.pick(std::vector<int>{0, 50, 100});
		int nops = (int)r.range(5, 60);
		static const char *kinds[] = {"new", "new", "new", "parse", "get", "get", "put", "put", "oadd", "oadd", "oadd", "odel", "aadd", "aadd", "aput",
		                              "ains", "adel", "userdata", "serializer", "copy", "pset", "patch", "ofill", "asort", "ashrink"};
		std::vector<std::string> en;
		for (auto k : kinds)
			if (r.chance(4, 5))
				en.push_back(k);
		if (en.empty())
			en.push_back("new");
		for (int i = 0; i < nops; i++)
		{
			Op op;
			op.kind = i < 3 ? std::string("new") : r.pick(en);
			op.a = {(int64_t)r.below(8), (int64_t)r.below(9) - 1, (int64_t)r.below(40), (int64_t)r.below(8)};
			if (op.kind == "new")
				op.a[1] = (i < 3) ? (int64_t)r.below(2) : (int64_t)r.below(7);
			if (op.kind == "parse")
			{
				GenOpts go;
				go.weird = false;
				go.doubles = false;
				go.max_depth = 3;
				go.max_width = 3;
				go.size_budget = 60;
				JsonGen g(r, go);
				// keys of generated objects are arbitrary strings; pointer/patch ops mostly target the k0..k5 keys of API-built objects
				g.value(0);
				op.data = g.out;
			}
			if (faulted && r.chance(1, 4) && op.kind != "put" && op.kind != "get")
			{
				Fault f;
				f.kind = "alloc";
				f.a = {(int64_t)r.below(4)};
				op.faults.push_back(f);
			}
			p.ops.push_back(op);
		}
		return p;
	}

	// ------------------------------------------------------------------ observers
	struct State
	{
		std::vector<struct json_object *> handles; // owned references (nullptr = empty slot)
		std::map<void *, int64_t> known;          // live nodes: address -> stable id
		std::map<int64_t, int64_t> token_of;      // node id -> current userdata token (tracked nodes only)
		int64_t next_id = 1, next_token = 1000;
		// per-op observations
		std::vector<int64_t> freed_ids;           // free(node) seen at the allocator seam
		std::vector<int64_t> callback_tokens;     // userdata delete callbacks
		std::map<void *, int64_t> nullud_token;   // node -> token of a deleter installed with userdata == NULL
		int track_pct = 50;
		uint64_t trk = 12345;
		std::vector<std::pair<void *, int64_t>> pending_copy_tokens; // tokens installed by the tracking shallow copy in this op
		std::set<void *> freed_addrs;             // node addresses freed in this op and not handed out again since
	};
	static State *g_st;
	static void free_hook(void *p)
	{
		if (!g_st)
			return;
		auto it = g_st->known.find(p);
		if (it != g_st->known.end())
		{
			g_st->freed_ids.push_back(it->second);
			g_st->known.erase(it);
			g_st->freed_addrs.insert(p);
		}
	}
	static void alloc_hook(void *p)
	{
		if (g_st && !g_st->freed_addrs.empty())
			g_st->freed_addrs.erase(p); // the allocator handed the address out again: it now names a new block
	}
	static void on_delete(struct json_object *, void *ud)
	{
		HarnessScope hs;
		if (g_st)
			g_st->callback_tokens.push_back((int64_t)(intptr_t)ud);
	}
	// a deleter installed with a NULL userdata pointer (allowed: "userdata" and "user_delete" are independent): identified by the node
	static void on_delete_nullud(struct json_object *jso, void *ud)
	{
		HarnessScope hs;
		if (g_st)
		{
			auto it = g_st->nullud_token.find((void *)jso);
			g_st->callback_tokens.push_back(ud == nullptr && it != g_st->nullud_token.end() ? it->second : (int64_t)-777);
		}
	}
	static int cmp_by_type_then_address_free(const void *a, const void *b)
	{
		struct json_object *x = *(struct json_object *const *)a, *y = *(struct json_object *const *)b;
		if (!x || !y)
			return (x ? 1 : 0) - (y ? 1 : 0);
		int tx = (int)json_object_get_type(x), ty = (int)json_object_get_type(y);
		if (tx != ty)
			return tx - ty;
		int64_t vx = tx == json_type_int ? json_object_get_int64(x) : tx == json_type_string ? json_object_get_string_len(x) : 0;
		int64_t vy = ty == json_type_int ? json_object_get_int64(y) : ty == json_type_string ? json_object_get_string_len(y) : 0;
		return vx < vy ? -1 : vx > vy ? 1 : 0;
	}
	static int custom_serializer(struct json_object *, struct printbuf *pb, int, int)
	{
		return printbuf_memappend(pb, "\"custom\"", 8);
	}
	// shallow copy that keeps our tracking: default copy, then a fresh token on the copy
	static int tracking_shallow_copy(json_object *src, json_object *parent, const char *key, size_t index, json_object **dst)
	{
		int rc = json_c_shallow_copy_default(src, parent, key, index, dst);
		if (rc < 0)
			return rc;
		if (json_object_get_type(src) == json_type_double)
			return rc; // parser-made doubles carry their source text as userdata: json-c copies that itself
		if (json_object_get_userdata(src) != nullptr && g_st)
		{
			HarnessScope hs;
			int64_t tok = g_st->next_token++;
			LIBV(json_object_set_userdata(*dst, (void *)(intptr_t)tok, on_delete));
			g_st->pending_copy_tokens.push_back({(void *)*dst, tok});
		}
		return 2; // userdata handled
	}

	struct Graph
	{
		std::map<void *, int> slotrefs; // references held by container slots
		std::set<void *> nodes;          // reachable from the handles
		std::vector<void *> order;       // discovery order (deterministic: handle slots, then depth first) - never iterate by address
	};
	// walk the trees of all handles through the public API
	void walk(State &s, Graph &g, RunCtx &ctx, const std::set<void *> *freed_now = nullptr)
	{
		std::vector<struct json_object *> todo;
		for (auto *h : s.handles)
			if (h)
				todo.push_back(h);
		while (!todo.empty())
		{
			struct json_object *o = todo.back();
			todo.pop_back();
			if (freed_now && freed_now->count(o))
				ctx.fail("C05:destroyed-while-still-referenced", "a node freed during this op is still referenced by a handle or a live container");
			if (!g.nodes.insert(o).second)
				continue;
			g.order.push_back(o);
			enum json_type t = LIB(json_object_get_type(o));
			if (t == json_type_array)
			{
				size_t n = LIB(json_object_array_length(o));
				for (size_t i = 0; i < n; i++)
				{
					struct json_object *c = LIB(json_object_array_get_idx(o, i));
					if (c)
					{
						g.slotrefs[c]++;
						todo.push_back(c);
					}
				}
			}
			else if (t == json_type_object)
			{
				LibScope ls;
				struct json_object_iterator it = json_object_iter_begin(o), end = json_object_iter_end(o);
				int guard = 0;
				while (!json_object_iter_equal(&it, &end) && guard++ < 100000)
				{
					struct json_object *c = json_object_iter_peek_value(&it);
					if (c)
					{
						g.slotrefs[c]++;
						todo.push_back(c);
					}
					json_object_iter_next(&it);
				}
			}
			else if (t == json_type_string)
				(void)node_bytes(o); // touch the bytes (ASan)
			else if (t == json_type_int)
				(void)json_object_get_int64(o);
		}
	}
	int refcount(State &s, const Graph &g, void *n)
	{
		int c = 0;
		for (auto *h : s.handles)
			c += (h == n);
		auto it = g.slotrefs.find(n);
		return c + (it == g.slotrefs.end() ? 0 : it->second);
	}
	bool reaches(struct json_object *from, struct json_object *target)
	{
		// is `target` reachable from `from` (inclusive)?
		std::vector<struct json_object *> todo{from};
		std::set<void *> seen;
		while (!todo.empty())
		{
			struct json_object *o = todo.back();
			todo.pop_back();
			if (!o || !seen.insert(o).second)
				continue;
			if (o == target)
				return true;
			enum json_type t = json_object_get_type(o);
			if (t == json_type_array)
				for (size_t i = 0; i < json_object_array_length(o); i++)
					todo.push_back(json_object_array_get_idx(o, i));
			else if (t == json_type_object)
			{
				struct json_object_iterator it = json_object_iter_begin(o), end = json_object_iter_end(o);
				while (!json_object_iter_equal(&it, &end))
				{
					todo.push_back(json_object_iter_peek_value(&it));
					json_object_iter_next(&it);
				}
			}
		}
		return false;
	}
	void collect(struct json_object *from, std::set<void *> &seen, bool *dag = nullptr)
	{
		std::vector<struct json_object *> todo{from};
		while (!todo.empty())
		{
			struct json_object *o = todo.back();
			todo.pop_back();
			if (!o)
				continue;
			if (!seen.insert(o).second)
			{
				if (dag)
					*dag = true; // reached twice: shared node
				continue;
			}
			enum json_type t = json_object_get_type(o);
			if (t == json_type_array)
				for (size_t i = 0; i < json_object_array_length(o); i++)
					todo.push_back(json_object_array_get_idx(o, i));
			else if (t == json_type_object)
			{
				struct json_object_iterator it = json_object_iter_begin(o), end = json_object_iter_end(o);
				while (!json_object_iter_equal(&it, &end))
				{
					todo.push_back(json_object_iter_peek_value(&it));
					json_object_iter_next(&it);
				}
			}
		}
	}
	// do the two trees have a node in common?  (then inserting one somewhere inside the other may close a cycle)
	// a documented copy (deep_copy, json_patch_apply with copy_from) hands the caller one reference on a tree of NEW nodes: if it
	// shared a node with what existed before, the owner of the source would no longer hold its last reference
	void must_be_fresh(struct json_object *res, const Graph &before, RunCtx &ctx, size_t oi, const char *what)
	{
		std::set<void *> sub;
		collect(res, sub);
		for (void *n : before.order)
			if (sub.count(n))
			{
				ctx.fail("C05:copy-shares-node-with-source", "op %zu: the result of %s contains a node that already existed (the source keeps an owner the caller never created)", oi, what);
				return;
			}
	}
	bool intersects(struct json_object *a, struct json_object *b)
	{
		std::set<void *> sa, sb;
		collect(a, sa);
		collect(b, sb);
		for (void *n : sa)
			if (sb.count(n))
				return true;
		return false;
	}
	bool is_tree(struct json_object *a)
	{
		std::set<void *> s;
		bool dag = false;
		collect(a, s, &dag);
		return !dag;
	}
	// register nodes that appeared (constructors, parser, copies) and install tracking on part of them
	void adopt_new_nodes(State &s, const Graph &g)
	{
		for (void *n : g.order)
		{
			if (s.known.count(n))
				continue;
			int64_t id = s.next_id++;
			s.known[n] = id;
			struct json_object *o = (struct json_object *)n;
			// tokens installed by the tracking shallow copy
			bool done = false;
			for (auto &pc : s.pending_copy_tokens)
				if (pc.first == n)
				{
					s.token_of[id] = pc.second; // the last entry for an address is the live node
					done = true;
				}
			if (done)
				continue;
			s.trk = s.trk * 6364136223846793005ULL + 1442695040888963407ULL;
			bool track = (int)((s.trk >> 33) % 100) < s.track_pct;
			if (track && LIB(json_object_get_userdata(o)) == nullptr && LIB(json_object_get_type(o)) != json_type_double)
			{
				int64_t tok = s.next_token++;
				LIBV(json_object_set_userdata(o, (void *)(intptr_t)tok, on_delete));
				s.token_of[id] = tok;
			}
		}
		s.pending_copy_tokens.clear();
	}

	static const char *keyname(int64_t i)
	{
		static const char *k[6] = {"k0", "k1", "k2", "k3", "a/b", ""};
		return k[(i < 0 ? -i : i) % 6];
	}

	void run(const Plan &p, RunCtx &ctx) override
	{
		State s;
		s.handles.assign(8, nullptr);
		s.track_pct = (int)p.c("track_pct", 50);
		s.trk = p.seed | 1;
		g_st = &s;
		g_alloc.free_hook = free_hook;
		g_alloc.alloc_hook = alloc_hook;
		replaced_keys.clear();
		struct Guard
		{
			~Guard()
			{
				g_st = nullptr;
				g_alloc.free_hook = nullptr;
				g_alloc.alloc_hook = nullptr;
			}
		} guard;
		auto H = [&](int64_t i) -> struct json_object *& { return s.handles[(size_t)(i < 0 ? -i : i) % s.handles.size()]; };
		auto free_slot = [&](int64_t pref) -> int {
			for (size_t k = 0; k < s.handles.size(); k++)
			{
				size_t i = ((size_t)(pref < 0 ? -pref : pref) + k) % s.handles.size();
				if (!s.handles[i])
					return (int)i;
			}
			return -1;
		};
		for (size_t oi = 0; oi <= p.ops.size(); oi++)
		{
			bool final_release = oi == p.ops.size();
			Op fin;
			fin.kind = "release-all";
			const Op &op = final_release ? fin : p.ops[oi];
			// ---- ownership graph before the op
			Graph before;
			walk(s, before, ctx);
			s.freed_ids.clear();
			s.callback_tokens.clear();
			s.freed_addrs.clear();
			s.pending_copy_tokens.clear();
			std::string outcome = "ok";
			std::string cov = op.kind;
			int64_t direct_arg_id = -1;          // node the op releases directly (put)
			std::vector<int64_t> expect_extra_callbacks; // userdata replacement callbacks (not destructions)
			bool skipped = false;
			if (!final_release)
				arm_faults(op, ctx);
			if (final_release)
			{
				for (auto *&h : s.handles)
					if (h)
					{
						LIBV(json_object_put(h));
						h = nullptr;
					}
			}
			else if (op.kind == "new")
			{
				int slot = free_slot(op.arg(0));
				if (slot < 0)
					skipped = true;
				else
				{
					struct json_object *o = nullptr;
					LibScope ls;
					switch (op.arg(1) % 7)
					{
					case 0: o = json_object_new_object(); break;
					case 1: o = json_object_new_array(); break;
					case 2: o = json_object_new_int64(op.arg(2) * 11); break;
					case 3: o = json_object_new_string("short"); break;
					case 4: o = json_object_new_boolean(1); break;
					case 5: o = (op.arg(2) & 1) ? json_object_new_double_s(2.5, "2.50") : json_object_new_double(0.5); break;
					default: o = json_object_new_string("a considerably longer string value that lives in a heap buffer once it is set"); break;
					}
					s.handles[(size_t)slot] = o;
					if (!o)
						outcome = "failed";
				}
			}
			else if (op.kind == "parse")
			{
				int slot = free_slot(op.arg(0));
				if (slot < 0 || op.data.empty())
					skipped = true;
				else
				{
					std::string t = op.data;
					t.push_back('\0');
					struct json_tokener *tok = new_tok(32, 0);
					if (tok)
					{
						ExactBuf b(t);
						struct json_object *o = LIB(json_tokener_parse_ex(tok, b.p, (int)t.size()));
						LIBV(json_tokener_free(tok));
						s.handles[(size_t)slot] = o;
						if (o)
							ctx.probe("parse.tree_from_parser");
						else
							outcome = "failed";
					}
					else
						outcome = "failed";
				}
			}
			else if (op.kind == "get")
			{
				int slot = free_slot(op.arg(1) < 0 ? 0 : op.arg(1));
				if (!H(op.arg(0)) || slot < 0)
					skipped = true;
				else
				{
					struct json_object *r = LIB(json_object_get(H(op.arg(0))));
					if (r != H(op.arg(0)))
						ctx.fail("C05:get-returned-other-node", "op %zu: json_object_get returned a different pointer", oi);
					s.handles[(size_t)slot] = r;
				}
			}
			else if (op.kind == "put")
			{
				struct json_object *n = H(op.arg(0));
				if (!n)
					skipped = true;
				else
				{
					int rcnt = refcount(s, before, n);
					direct_arg_id = s.known.count(n) ? s.known[n] : -1;
					int rc = LIB(json_object_put(n));
					H(op.arg(0)) = nullptr;
					if ((rc == 1) != (rcnt == 1))
						ctx.fail("C05:put-return-mismatch", "op %zu: json_object_put returned %d but the node had %d owner(s) (handles + container slots)", oi, rc, rcnt);
					ctx.probe(rc == 1 ? "put.last_reference_frees" : "put.not_last_reference");
					outcome = rc == 1 ? "freed" : "kept";
				}
			}
			else if (op.kind == "oadd")
			{
				struct json_object *c = H(op.arg(0));
				bool null_value = op.arg(1) < 0;
				struct json_object *v = null_value ? nullptr : H(op.arg(1));
				if (!c || LIB(json_object_get_type(c)) != json_type_object || (!null_value && !v))
					skipped = true;
				else if (v && v != c && reaches(v, c))
					skipped = true; // would create a cycle: forbidden to callers
				else
				{
					const char *key = keyname(op.arg(2));
					unsigned opts = 0;
					bool exists = LIB(json_object_object_get_ex(c, key, nullptr));
					if ((op.arg(3) & 1) && !exists)
						opts |= JSON_C_OBJECT_ADD_KEY_IS_NEW;
					if (op.arg(3) & 2)
						opts |= JSON_C_OBJECT_ADD_CONSTANT_KEY; // keyname() strings are static
					if (v && before.slotrefs.count(v))
						ctx.probe("shared_node_in_two_containers");
					int rc = LIB(json_object_object_add_ex(c, key, v, opts));
					if (rc == 0)
					{
						if (v)
							H(op.arg(1)) = nullptr; // ownership transferred
						if (exists)
						{
							ctx.probe("replace.releases_old_value");
							if (replaced_keys.count(std::make_pair((void *)c, std::string(key))))
								ctx.probe("replace.same_key_twice");
							replaced_keys.insert(std::make_pair((void *)c, std::string(key)));
							cov += "|replace";
						}
					}
					else
					{
						outcome = "failed";
						if (v == c)
							ctx.probe("object.self_add_refused");
						else if (!g_alloc.fired)
							ctx.fail("C05:spurious-failure", "op %zu: json_object_object_add_ex failed without cause", oi);
						else
							ctx.probe("alloc_failure.value_kept_by_caller");
					}
					if (v == c && rc == 0)
						ctx.fail("C05:self-add-accepted", "op %zu: adding an object to itself returned 0", oi);
				}
			}
			else if (op.kind == "ofill")
			{
				// many members at once (enough to make the table grow), a few of them with the CONSTANT_KEY flag
				static const char *fk[16] = {"f0", "f1", "f2", "f3", "f4", "f5", "f6", "f7", "f8", "f9", "f10", "f11", "f12", "f13", "f14", "f15"};
				struct json_object *c = H(op.arg(0));
				if (!c || LIB(json_object_get_type(c)) != json_type_object)
					skipped = true;
				else
				{
					int n = 6 + (int)(op.arg(2) % 10);
					for (int i = 0; i < n && outcome == "ok"; i++)
					{
						unsigned opts = ((op.arg(3) + i) % 4 == 0) ? JSON_C_OBJECT_ADD_CONSTANT_KEY : 0;
						struct json_object *v = LIB(json_object_new_int64(i));
						if (!v)
						{
							outcome = "failed";
							break;
						}
						if (LIB(json_object_object_add_ex(c, fk[i], v, opts)) != 0)
						{
							LIBV(json_object_put(v)); // still ours
							outcome = "failed";
							if (!g_alloc.fired)
								ctx.fail("C05:spurious-failure", "op %zu: json_object_object_add_ex failed without cause", oi);
						}
					}
					ctx.probe("object.filled_past_growth_threshold");
				}
			}
			else if (op.kind == "odel")
			{
				struct json_object *c = H(op.arg(0));
				if (!c || LIB(json_object_get_type(c)) != json_type_object)
					skipped = true;
				else
				{
					struct json_object *old = nullptr;
					bool exists = LIB(json_object_object_get_ex(c, keyname(op.arg(2)), &old));
					if (exists && old && refcount(s, before, old) > 1)
						ctx.probe("delete.member_with_extra_ref_survives");
					LIBV(json_object_object_del(c, keyname(op.arg(2))));
					cov += exists ? "|present" : "|absent";
				}
			}
			else if (op.kind == "aadd" || op.kind == "aput" || op.kind == "ains")
			{
				struct json_object *c = H(op.arg(0));
				bool null_value = op.arg(1) < 0;
				struct json_object *v = null_value ? nullptr : H(op.arg(1));
				if (!c || LIB(json_object_get_type(c)) != json_type_array || (!null_value && !v))
					skipped = true;
				else if (v && reaches(v, c))
					skipped = true; // cycle (incl. adding an array to itself)
				else
				{
					size_t len = LIB(json_object_array_length(c));
					size_t idx = (size_t)op.arg(2) % (len + 3);
					if (v && before.slotrefs.count(v))
						ctx.probe("shared_node_in_two_containers");
					int rc;
					if (op.kind == "aadd")
						rc = LIB(json_object_array_add(c, v));
					else if (op.kind == "aput")
					{
						if (idx < len && LIB(json_object_array_get_idx(c, idx)))
							ctx.probe("array.put_over_occupied_slot");
						rc = LIB(json_object_array_put_idx(c, idx, v));
					}
					else
						rc = LIB(json_object_array_insert_idx(c, idx, v));
					if (rc == 0)
					{
						if (v)
							H(op.arg(1)) = nullptr;
					}
					else
					{
						outcome = "failed";
						if (!g_alloc.fired)
							ctx.fail("C05:spurious-failure", "op %zu: %s failed without cause", oi, op.kind.c_str());
						ctx.probe("alloc_failure.value_kept_by_caller");
					}
				}
			}
			else if (op.kind == "adel")
			{
				struct json_object *c = H(op.arg(0));
				if (!c || LIB(json_object_get_type(c)) != json_type_array)
					skipped = true;
				else
				{
					size_t len = LIB(json_object_array_length(c));
					size_t idx = (size_t)op.arg(2) % (len + 2), cnt = (size_t)op.arg(3) % 4;
					if (op.arg(3) == 7)
						cnt = (size_t)0 - idx; // idx + cnt wraps to 0
					else if (op.arg(3) == 6)
						cnt = (size_t)-1 - (size_t)(op.arg(2) % 3);
					bool valid = idx < len && cnt <= len - idx;
					int rc = LIB(json_object_array_del_idx(c, idx, cnt));
					if ((rc == 0) != valid)
						ctx.fail("C05:delete-range-return-mismatch", "op %zu: del_idx(%zu,%zu) on length %zu returned %d", oi, idx, cnt, len, rc);
					if (!valid)
					{
						outcome = "failed";
						ctx.probe("array.out_of_range_refused");
					}
					else if (cnt)
						ctx.probe("array.del_range_releases");
				}
			}
			else if (op.kind == "asort" || op.kind == "ashrink")
			{
				// reordering / trimming capacity must not touch ownership
				struct json_object *c = H(op.arg(0));
				if (!c || LIB(json_object_get_type(c)) != json_type_array)
					skipped = true;
				else if (op.kind == "asort")
					LIBV(json_object_array_sort(c, cmp_by_type_then_address_free));
				else if (LIB(json_object_array_shrink(c, (int)(op.arg(2) % 4))) != 0 && !g_alloc.fired)
					ctx.fail("C05:spurious-failure", "op %zu: json_object_array_shrink failed without cause", oi);
			}
			else if (op.kind == "userdata")
			{
				struct json_object *n = H(op.arg(0));
				if (!n || !s.known.count(n) || LIB(json_object_get_type(n)) == json_type_double)
					skipped = true;
				else
				{
					int64_t id = s.known[n];
					if (s.token_of.count(id))
					{
						expect_extra_callbacks.push_back(s.token_of[id]);
						ctx.probe("userdata.replaced_callback_runs");
					}
					else if (LIB(json_object_get_userdata(n)) != nullptr)
						skipped = true; // foreign userdata (e.g. parser's number text): not ours to replace
					if (!skipped)
					{
						// every third time the SAME userdata pointer is installed again: the old callback must still run
						bool same = s.token_of.count(id) && (op.arg(1) % 3 == 0);
						int64_t tok = same ? s.token_of[id] : s.next_token++;
						if (same)
							ctx.probe("userdata.same_pointer_reinstalled");
						if (!same && op.arg(1) % 5 == 4)
						{
							LIBV(json_object_set_userdata(n, nullptr, on_delete_nullud)); // (runs the previous deleter first)
							s.nullud_token[(void *)n] = tok;
							ctx.probe("userdata.deleter_with_null_userdata");
						}
						else
							LIBV(json_object_set_userdata(n, (void *)(intptr_t)tok, on_delete));
						s.token_of[id] = tok;
					}
				}
			}
			else if (op.kind == "serializer")
			{
				struct json_object *n = H(op.arg(0));
				if (!n || !s.known.count(n) || LIB(json_object_get_type(n)) == json_type_double)
					skipped = true;
				else
				{
					int64_t id = s.known[n];
					if (s.token_of.count(id))
						expect_extra_callbacks.push_back(s.token_of[id]);
					else if (LIB(json_object_get_userdata(n)) != nullptr)
						skipped = true;
					if (!skipped)
					{
						bool same = s.token_of.count(id) && (op.arg(2) % 3 == 0);
						int64_t tok = same ? s.token_of[id] : s.next_token++;
						if (same)
							ctx.probe("userdata.same_pointer_reinstalled");
						LIBV(json_object_set_serializer(n, (op.arg(1) & 1) ? custom_serializer : nullptr, (void *)(intptr_t)tok, on_delete));
						s.token_of[id] = tok;
					}
				}
			}
			else if (op.kind == "copy")
			{
				int slot = free_slot(op.arg(1) < 0 ? 1 : op.arg(1));
				struct json_object *n = H(op.arg(0));
				if (!n || slot < 0)
					skipped = true;
				else
				{
					struct json_object *dst = nullptr;
					// every other copy uses json-c's default copier: it refuses nodes that carry userdata it does not know (a natural,
					// documented failure in the middle of a copy) - the partial copy must then be unwound without trace
					bool use_default = op.arg(3) & 1;
					bool has_foreign_userdata = false;
					if (use_default)
					{
						std::set<void *> sub;
						collect(n, sub);
						for (void *x : sub)
						{
							if (LIB(json_object_get_userdata((struct json_object *)x)) != nullptr && LIB(json_object_get_type((struct json_object *)x)) != json_type_double)
								has_foreign_userdata = true;
							// (a deleter installed with a NULL userdata pointer is serializer data the default copier does not know either)
							auto kn = s.known.find(x);
							if (kn != s.known.end() && s.token_of.count(kn->second))
								has_foreign_userdata = true;
						}
					}
					int rc = LIB(json_object_deep_copy(n, &dst, use_default ? nullptr : tracking_shallow_copy));
					if (rc == 0 && dst)
					{
						s.handles[(size_t)slot] = dst;
						must_be_fresh(dst, before, ctx, oi, "json_object_deep_copy");
						// (and a copy is a copy: same shape and values, null elements and members included)
						if (typed_dump(dst) != typed_dump(n))
							ctx.fail("C05:copy-differs-from-source", "op %zu: json_object_deep_copy produced %s from %s", oi, typed_dump(dst).substr(0, 200).c_str(), typed_dump(n).substr(0, 200).c_str());
						ctx.probe("deep_copy.ok");
					}
					else
					{
						outcome = "failed";
						if (dst)
							ctx.fail("C05:failed-copy-left-result", "op %zu: deep_copy returned %d but *dst is set", oi, rc);
						if (use_default && has_foreign_userdata)
							ctx.probe("deep_copy.refused_midway_unwound");
						else if (!g_alloc.fired)
							ctx.fail("C05:spurious-failure", "op %zu: json_object_deep_copy failed without cause", oi);
					}
				}
			}
			else if (op.kind == "pset")
			{
				bool null_value = op.arg(1) < 0;
				struct json_object *root = H(op.arg(0));
				struct json_object *v = null_value ? nullptr : H(op.arg(1));
				static const char *paths[8] = {"/k0", "/k1/k0", "/0", "/-", "/k2/-", "", "/k3/1", "/nope/deeper"};
				const char *path = paths[op.arg(2) % 8];
				if (!root || (!null_value && !v) || (op.arg(0) % 8 == op.arg(1) % 8 && !null_value))
					skipped = true;
				else if (v && path[0] != '\0' && intersects(v, root))
					skipped = true; // (the whole-document path "" inserts nothing: the value may be the root itself through a second handle, or a node inside it) the path may resolve to a container that is (inside) v, e.g. "/k2/-" where k2 is v or shares a node with v: a cycle, forbidden to callers
				else
				{
					size_t ri = (size_t)(op.arg(0) < 0 ? -op.arg(0) : op.arg(0)) % s.handles.size();
					int rc = (op.arg(3) & 1) ? LIB(json_pointer_setf(&s.handles[ri], v, "%s", path)) : LIB(json_pointer_set(&s.handles[ri], path, v));
					if (rc == 0)
					{
						if (path[0] == '\0')
						{
							// the handle now holds the value itself; the caller's second handle on it is the one that was given away
							if (v)
								H(op.arg(1)) = nullptr;
							if (v == root)
								ctx.probe("pointer_set.root_replaced_by_itself");
						}
						else if (v)
							H(op.arg(1)) = nullptr;
						ctx.probe("pointer_set.ok");
					}
					else
					{
						outcome = "failed";
						ctx.probe("pointer_set.failed_value_kept");
					}
				}
			}
			else if (op.kind == "patch")
			{
				static const char *patches[19] = {
				    "[{\"op\":\"add\",\"path\":\"/k0\",\"value\":[1,{\"z\":2}]}]",
				    "[{\"op\":\"remove\",\"path\":\"/k0\"}]",
				    "[{\"op\":\"replace\",\"path\":\"/k1\",\"value\":\"r\"},{\"op\":\"remove\",\"path\":\"/k2\"}]",
				    "[{\"op\":\"move\",\"from\":\"/k0\",\"path\":\"/k3\"}]",
				    "[{\"op\":\"copy\",\"from\":\"/k1\",\"path\":\"/k2\"},{\"op\":\"add\",\"path\":\"/k9/x\",\"value\":1}]",
				    "[{\"op\":\"add\",\"path\":\"/-\",\"value\":{\"n\":null}},{\"op\":\"remove\",\"path\":\"/0\"}]",
				    "[{\"op\":\"move\",\"from\":\"/0\",\"path\":\"/1\"},{\"op\":\"test\",\"path\":\"/0\",\"value\":7}]",
				    "[{\"op\":\"add\",\"path\":\"\",\"value\":{\"fresh\":[true]}}]",
				    "[{\"op\":\"remove\",\"path\":\"\"}]",
				    "[{\"op\":\"move\",\"from\":\"/k1\",\"path\":\"/k1\"},{\"op\":\"copy\",\"from\":\"/k0\",\"path\":\"/k0/x\"}]",
				    "[]",
				    "[{\"op\":\"move\",\"from\":\"/k0\",\"path\":\"/k1/zz/q\"}]",
				    "[{\"op\":\"move\",\"from\":\"/0\",\"path\":\"/9\"}]",
				    "[{\"op\":\"copy\",\"from\":\"/k1/k0\",\"path\":\"/k1\"}]",
				    "[{\"op\":\"copy\",\"from\":\"/k0\",\"path\":\"\"}]",
				    "[{\"op\":\"move\",\"from\":\"/k1/k0\",\"path\":\"/k1\"},{\"op\":\"copy\",\"from\":\"/0/0\",\"path\":\"/0\"}]",
				    "[{\"op\":\"copy\",\"from\":\"/k0\",\"path\":\"/k1/zz/q\"}]",
				    "[{\"op\":\"copy\",\"from\":\"/0\",\"path\":\"/9\"},{\"op\":\"move\",\"from\":\"/1\",\"path\":\"/k0\"}]",
				    "[{\"op\":\"test\",\"path\":\"\",\"value\":0},{\"op\":\"add\",\"path\":\"/k7\",\"value\":null}]"};
				struct json_object *base = H(op.arg(0));
				bool copy_from = op.arg(3) & 1;
				int slot = free_slot(op.arg(1) < 0 ? 2 : op.arg(1));
				if (!base || (copy_from && slot < 0))
					skipped = true;
				else if (!is_tree(base))
					skipped = true; // move/copy inside a document that shares nodes between branches can close a cycle: JSON patch is defined on trees
				else
				{
					std::string t = std::string(patches[op.arg(2) % 19]) + std::string(1, '\0');
					disarm_faults(); // the patch document itself is built without faults
					struct json_tokener *tok = new_tok(32, 0);
					ExactBuf b(t);
					struct json_object *patch = LIB(json_tokener_parse_ex(tok, b.p, (int)t.size()));
					LIBV(json_tokener_free(tok));
					arm_faults(op, ctx);
					struct json_patch_error perr;
					memset(&perr, 0, sizeof perr);
					int rc;
					size_t bi = (size_t)(op.arg(0) < 0 ? -op.arg(0) : op.arg(0)) % s.handles.size();
					if (copy_from)
					{
						struct json_object *res = nullptr;
						rc = LIB(json_patch_apply(base, patch, &res, &perr));
						if (res)
						{
							s.handles[(size_t)slot] = res; // must be released by the caller even when patching failed
							must_be_fresh(res, before, ctx, oi, "json_patch_apply(copy_from)");
						}
						ctx.probe("patch.copy_from");
					}
					else
						rc = LIB(json_patch_apply(nullptr, patch, &s.handles[bi], &perr));
					disarm_faults();
					LIBV(json_object_put(patch));
					ctx.probe(rc == 0 ? "patch.ok" : "patch.failed");
					if (rc != 0)
						outcome = "failed";
				}
			}
			if (!final_release)
			{
				tally_faults(ctx);
				disarm_faults();
			}
			// ---- what was destroyed in this op, and what should have been
			std::set<void *> freed_now = s.freed_addrs; // node addresses freed in this op that still name freed memory
			Graph after;
			walk(s, after, ctx, &freed_now);
			// nodes known before the op and no longer reachable must be exactly the destroyed ones
			std::vector<int64_t> unreachable, destroyed = s.freed_ids;
			for (void *n : before.order)
				if (!after.nodes.count(n) || freed_now.count(n))
				{
					// find its id: still in known if it was NOT freed
					auto it = s.known.find(n);
					if (it != s.known.end())
						unreachable.push_back(it->second);
				}
			if (!unreachable.empty())
				ctx.fail("C05:unreachable-node-not-destroyed", "op %zu (%s): %zu node(s) lost their last owner in this op but were not destroyed (first id %lld)", oi, op.kind.c_str(),
				         unreachable.size(), (long long)unreachable[0]);
			// every destroyed node must have been unreachable afterwards (checked during the walk) and known before
			std::sort(destroyed.begin(), destroyed.end());
			if (std::adjacent_find(destroyed.begin(), destroyed.end()) != destroyed.end())
				ctx.fail("C05:destroyed-twice", "op %zu (%s): a node was freed twice", oi, op.kind.c_str());
			// delete callbacks: one per destroyed tracked node (its current token) + the userdata replacements
			std::vector<int64_t> want_tokens = expect_extra_callbacks;
			for (int64_t id : destroyed)
			{
				auto it = s.token_of.find(id);
				if (it != s.token_of.end())
				{
					want_tokens.push_back(it->second);
					s.token_of.erase(it);
				}
			}
			// nodes created by the tracking shallow copy that did not survive the op (failed deep copy unwinds them)
			for (size_t i = 0; i < s.pending_copy_tokens.size(); i++)
			{
				bool later_same_addr = false;
				for (size_t j = i + 1; j < s.pending_copy_tokens.size(); j++)
					later_same_addr = later_same_addr || s.pending_copy_tokens[j].first == s.pending_copy_tokens[i].first;
				if (later_same_addr || !after.nodes.count(s.pending_copy_tokens[i].first))
					want_tokens.push_back(s.pending_copy_tokens[i].second);
			}
			std::vector<int64_t> got_tokens = s.callback_tokens;
			std::sort(want_tokens.begin(), want_tokens.end());
			std::sort(got_tokens.begin(), got_tokens.end());
			if (want_tokens != got_tokens)
				ctx.fail("C05:callback-mismatch", "op %zu (%s): %zu destruction/replacement callback(s) ran, %zu expected (%zu node(s) destroyed)", oi, op.kind.c_str(), got_tokens.size(),
				         want_tokens.size(), destroyed.size());
			adopt_new_nodes(s, after);
			// nodes that outlive a destroyed parent stay fully readable
			size_t cascade = destroyed.size();
			if (direct_arg_id >= 0 && std::binary_search(destroyed.begin(), destroyed.end(), direct_arg_id))
				cascade--;
			if (cascade > 0)
			{
				ctx.nontrivial = true;
				if (op.kind == "put" || final_release)
					ctx.probe("cascade.children_destroyed_with_parent");
			}
			if (!destroyed.empty())
			{
				// some child of a destroyed container survived through another owner?
				for (void *n : before.order)
					if (freed_now.count(n) == 0 && before.slotrefs.count(n) && after.nodes.count(n) && refcount(s, after, n) < refcount(s, before, n))
					{
						ctx.probe("child_outlives_parent");
						break;
					}
			}
			if (outcome == "failed")
				ctx.nontrivial = true;
			if (!skipped)
			{
				ctx.log("op %zu %s %s destroyed=%zu live=%zu", oi, op.kind.c_str(), outcome.c_str(), destroyed.size(), s.known.size());
				ctx.cover(cov + "|" + outcome + "|" + (destroyed.empty() ? "none" : destroyed.size() == 1 ? "one" : "many") + (cascade ? "|cascade" : ""));
			}
			for (auto *h : s.handles)
				if (h)
					(void)typed_dump(h);
		}
		if (!s.known.empty())
			ctx.fail("C05:nodes-alive-after-release", "%zu node(s) are still alive after every handle was released", s.known.size());
		if (!g_alloc.live.empty())
			ctx.fail("C05:leak@" + g_alloc.first_live_site(), "%zu allocation(s) remain after every handle was released:%s", g_alloc.live.size(),
			         g_alloc.describe_live().c_str());
	}
	std::set<std::pair<void *, std::string>> replaced_keys;
};
C05::State *C05::g_st = nullptr;
REGISTER_PROPERTY(C05)
} // namespace
