// C18 — threaded build: shared reference counts are atomic; the hash seed is set once.
// Binary jsim-thr: json-c compiled with ENABLE_THREADING=ON and -fsanitize=thread, linked against sim/simtsan.c (our own
// __tsan_* callbacks) instead of the TSan runtime.  Real pthreads, one running at a time; the seeded scheduler decides at every
// atomic, every instrumented memory access and every seam call who runs next; the same callbacks feed a happens-before detector.
//   W1 shared nodes:   2..4 threads, 1..3 shared nodes (scalars / small trees), each thread owns r references per node and runs a
//                      generated get/put sequence that never releases more than it owns; reads of immutable fields in between.
//   W3 seed race:      N threads create their first object and hash a fixed key early and late in a VIRGIN process; the seed seam
//                      gives every caller a different candidate and is a yield point.
//   W4 disjoint trees: every thread builds, mutates, serialises and frees its own tree with the full API.
#include "common.h"
#ifdef JSIM_THR
#include "../sim/simtsan.h"
#include "gen_json.h"
#include "tok_util.h"
#include <unistd.h>
#include <functional>
#include <algorithm>
#include <array>
extern "C" {
#include "linkhash.h"
#include "printbuf.h"
#include "json_pointer.h"
#include "json_patch.h"
}

namespace
{
struct C18 : Property
{
	const char *id() const override { return "C18"; }
	const char *level() const override { return "exploration"; }
	const char *variant() const override { return "thr"; }
	uint64_t runs(Tier t) const override { return t == QUICK ? 60000 : 2500000; }
	std::string rule() const override
	{
		return "seeded runs of three workloads on the ENABLE_THREADING build: W1 (70%) 2-4 threads x 1-3 shared nodes x generated get/put sequences; W4 (20%) 2-3 threads each working on "
		       "its own tree with parse/build/mutate/serialise/deep_copy/free; W3 (10%) 2-4 threads racing on first use of the default key hash in a fresh process. Schedule = "
		       "seeded switch decisions at every atomic, every instrumented access (elevated on shared-node memory) and every allocator/seed seam call; random-switch and PCT "
		       "(d=2..4) policies; switch probabilities re-drawn per run. A run is non-trivial if at least one context switch happened while another thread was inside a "
		       "library call; distinct = distinct hashes of the thread-id sequence over all yield points (distinct interleavings).";
	}
	std::vector<std::string> assumptions() const override
	{
		return {"sequentially consistent interleavings only: json-c uses full-barrier __sync builtins, weaker hardware orderings are not simulated",
		        "the happens-before detector sees accesses made by instrumented json-c code only (libc internals such as memcpy on node memory are invisible to it)",
		        "the plain volatile read of the seed before the compare-and-swap inside lh_char_hash is by design and checked semantically (equal hashes), not by the race oracle",
		        "NDEBUG build as shipped; the assert()-enabled configuration is discussed in DESIGN.md"};
	}
	std::vector<std::string> probes() const override
	{
		return {"W1.last_put_by_non_creator_thread", "W1.switch_inside_put_before_destroy", "W1.container_children_destroyed_once", "W1.three_or_more_threads", "W1.thread_holds_child_of_shared_container", "W3.two_threads_past_unset_test_before_cas",
		        "W3.seed_source_returned_minus_one", "W3.lost_cas_thread_uses_winner_seed", "W3.default_hash_selected_again_after_first_use", "W1.owner_replaces_userdata_before_its_put", "W4.threads_are_first_users_in_a_fresh_process", "W1.same_node_readded_to_private_container", "W1.deep_copy_of_shared_node", "W1.shared_node_as_patch_value", "W1.patch_store_step_failed_reference_returned", "W4.disjoint_trees_no_conflict", "sched.pct_policy", "sched.random_policy", "atomics.seen"};
	}
	std::vector<std::string> probes_expected_zero() const override { return {"W1.switch_between_load_and_store_of_counter"}; }
	std::vector<std::string> real_components() const override
	{
		return {"all json-c translation units, compiled with -DENABLE_THREADING (cmake -DENABLE_THREADING=ON config.h) and -fsanitize=thread instrumentation",
		        "real pthreads (parked on semaphores, one released at a time)", "glibc"};
	}
	std::vector<std::string> stub_components() const override
	{
		return {"TSan runtime replaced by sim/simtsan.c: scheduler + vector-clock happens-before detector + quarantine of freed blocks", "allocator front, seed source (arc4random) as in the other checks"};
	}
	std::map<std::string, int64_t> cfg_defaults() const override { return {{"pct", 0}, {"p_atomic", 300}, {"p_watched", 300}, {"p_other", 20}}; }
	// which build of json-c found it (the replay command picks the binary accordingly)
	void stamp_process_cfg(Plan &p) override { p.cfg["assert_build"] = strstr(g_exe_path, "thrassert") ? 1 : 0; }

	Plan generate(Rng &r, Tier, uint64_t) override
	{
		Plan p;
		int w = (int)r.below(10);
		int workload = w < 7 ? 1 : w < 9 ? 4 : 3;
		p.cfg["workload"] = workload;
		if (workload == 4)
			p.cfg["virgin"] = r.chance(1, 6); // executed in a fresh process, the threads are the first users of everything but the hash seed
		p.cfg["sched_seed"] = (int64_t)(r.next() >> 8);
		p.cfg["pct"] = r.chance(1, 3) ? (int64_t)r.range(2, 4) : 0;
		p.cfg["p_atomic"] = (int64_t)r.pick(std::vector<int>{50, 200, 500, 900});
		p.cfg["p_watched"] = (int64_t)r.pick(std::vector<int>{10, 100, 300, 700});
		p.cfg["p_other"] = (int64_t)r.pick(std::vector<int>{0, 5, 30, 100});
		int nthreads = (int)r.range(2, 4);
		p.cfg["threads"] = nthreads;
		if (workload == 1)
		{
			int nnodes = (int)r.range(1, 3);
			p.cfg["nodes"] = nnodes;
			for (int n = 0; n < nnodes; n++)
			{
				Op o;
				o.kind = "node";
				o.a = {(int64_t)r.below(4)}; // 0 int, 1 string, 2 array with children, 3 object with children
				p.ops.push_back(o);
			}
			// per thread: initial ownership + op sequence (kind, node); the run clamps so a thread never releases more than it owns
			for (int t = 0; t < nthreads; t++)
			{
				Op own;
				own.kind = "own";
				own.a = {t};
				for (int n = 0; n < nnodes; n++)
					own.a.push_back((int64_t)r.range(0, 2));
				p.ops.push_back(own);
				int len = (int)r.range(1, 8);
				for (int i = 0; i < len; i++)
				{
					Op o;
					o.kind = "t";
					o.a = {t, (int64_t)r.below(6), (int64_t)r.below((uint64_t)nnodes)}; // action 0 get, 1 put, 2 read, 3 replace the userdata (designated owner only), 4 keep a reference in a thread-private object (re-add), 5 deep copy
					if (o.a[1] == 2 && (i & 1))
						o.a[1] = 6; // 6: the node travels as the "value" of a thread-private patch document (no extra draw: the other plans keep their shape)
					p.ops.push_back(o);
				}
			}
		}
		else if (workload == 4)
		{
			for (int t = 0; t < nthreads && t < 3; t++)
			{
				Op o;
				o.kind = "tree";
				GenOpts go;
				go.weird = false;
				go.max_depth = 3;
				go.max_width = 3;
				go.size_budget = 60;
				JsonGen g(r, go);
				g.value(0);
				// every job also carries one token of each kind (escapes with hex letters, surrogates, exponent, literals): whatever the
				// library initialises lazily on first use of a token kind is then first used by several threads at once (virgin runs)
				o.data = "[" + g.out + ",\"\\u00e9\\u007A\\uD83D\\uDE00\\n\",-1.5e3,true,false,null,{\"k\":12345678901234567890}]";
				o.a = {t, (int64_t)r.below(1000)};
				p.ops.push_back(o);
			}
		}
		else
		{
			Op o;
			o.kind = "seedrace";
			o.a = {(int64_t)r.below(18)}; // %3: how many leading seed-source answers are the forbidden -1
			p.ops.push_back(o);
		}
		return p;
	}

	// ------------------------------------------------------------------ shared state of one run (touched only while holding the token)
	struct Shared
	{
		RunCtx *ctx;
		std::vector<struct json_object *> nodes;
		std::vector<int> creator_refs;
		std::vector<std::vector<int>> owned;                 // owned[thread][node]: references the thread holds and has not started to release
		std::vector<int> destroyed;                          // destruction callbacks per node
		std::vector<int> destroyed_by;                       // thread that ran the callback
		std::vector<int> freed_returns;                      // puts that returned 1 per node
		std::vector<int> parent_of;                          // per node: index of the container that holds it, or -1
		std::vector<std::vector<std::array<int, 2>>> script; // per thread: (action, node)
		std::vector<std::string> errors;
		std::vector<uint64_t> put_invoke_seq;
		// W3
		std::vector<unsigned long> hashes;
		int seed_calls = 0;
		int minus_one_left = 0;
		int threads_past_test = 0;
		int nthreads = 1;
		bool retagged = false, readded = false, copied = false, patched = false, patch_failed = false;
		std::vector<std::vector<int>> held; // per thread, per node: reference held by the thread's private container
		std::vector<bool> in_priv;          // node was ever placed in a private container (it may die inside that container's teardown)
	};
	static Shared *g_sh;

	static thread_local bool t_retagging;
	static void node_deleted(struct json_object *, void *ud)
	{
		HarnessScope hs;
		if (t_retagging)
			return; // json_object_set_userdata runs the previous deleter when the userdata is replaced: not a destruction
		Shared &s = *g_sh;
		size_t n = (size_t)(intptr_t)ud;
		if (s.parent_of[n] >= 0 && s.destroyed[(size_t)s.parent_of[n]] == 0)
			s.errors.push_back("C18:child-destroyed-before-parent|child node " + std::to_string(n) + " was destroyed while its parent container (which holds a reference to it) is alive");
		s.destroyed[n]++;
		s.destroyed_by[n] = simthr_self();
		int outstanding = 0;
		for (auto &o : s.owned)
			outstanding += o[n];
		for (auto &h : s.held)
			outstanding += h[n];
		if (outstanding > 0)
			s.errors.push_back("C18:destroyed-while-referenced|node " + std::to_string(n) + " was destroyed by thread " + std::to_string(simthr_self()) + " while " +
			                   std::to_string(outstanding) + " reference(s) were still held by threads that had not started to release them");
	}

	struct ThreadArg
	{
		int t;
	};
	static void w1_thread(void *argp)
	{
		Shared &s = *g_sh;
		int t = ((ThreadArg *)argp)->t;
		struct json_object *priv = nullptr; // thread-private container (action 4)
		std::vector<bool> priv_has(s.nodes.size(), false);
		int patch_step = 0;
		for (auto &step : s.script[(size_t)t])
		{
			int action = step[0];
			size_t n = (size_t)step[1];
			if (action == 0)
			{
				if (s.owned[(size_t)t][n] <= 0)
					continue; // get requires a live reference of one's own
				struct json_object *r = LIB(json_object_get(s.nodes[n]));
				if (r != s.nodes[n])
					s.errors.push_back("C18:get-returned-other-node|json_object_get returned a different pointer");
				s.owned[(size_t)t][n]++;
			}
			else if (action == 1)
			{
				if (s.owned[(size_t)t][n] <= 0)
					continue;
				s.owned[(size_t)t][n]--; // from here on this reference is being released
				int rc = LIB(json_object_put(s.nodes[n]));
				if (rc == 1)
				{
					s.freed_returns[n]++;
					if (s.destroyed[n] != 1)
						s.errors.push_back("C18:put-freed-without-destruction|json_object_put returned 1 for node " + std::to_string(n) + " but its destruction callback ran " +
						                   std::to_string(s.destroyed[n]) + " time(s)");
				}
			}
			else if (action == 4)
			{
				if (s.owned[(size_t)t][n] <= 0)
					continue;
				// a thread-private object keeps its own reference to the shared node; adding the same node again under the same key is
				// a replace whose old and new value are the same node: one reference in, one out, through the container's own paths
				if (!priv)
					priv = LIB(json_object_new_object());
				std::string key = "n" + std::to_string(n);
				bool had = priv_has[n];
				if (LIB(json_object_object_add(priv, key.c_str(), json_object_get(s.nodes[n]))) == 0)
				{
					if (!had)
					{
						priv_has[n] = true;
						s.held[(size_t)t][n] = 1; // the private container's own reference (not available to this thread's put actions)
						s.in_priv[n] = true;
					}
					s.readded = s.readded || had;
				}
			}
			else if (action == 5 && (int)(n % (size_t)s.nthreads) == t)
			{
				// (by the designated owner only: the copy reads the userdata fields that the same owner may re-install with action 3)
				if (s.owned[(size_t)t][n] <= 0)
					continue;
				// copying a node one holds a reference to only reads it
				struct json_object *cp = nullptr;
				if (LIB(json_object_deep_copy(s.nodes[n], &cp, nullptr)) == 0 && cp)
					LIBV(json_object_put(cp));
				s.copied = true;
			}
			else if (action == 6)
			{
				if (s.owned[(size_t)t][n] <= 0)
					continue;
				// references taken and returned through a secondary entry point: the shared node is the "value" of a patch document
				// that only this thread uses; `add`/`replace` acquire a reference for the target document and give it back when the
				// store step fails (parent path missing).  The thread's own reference keeps the node alive throughout.
				patch_step++;
				bool fail = ((patch_step + (int)n + t) & 1) != 0;
				bool repl = (patch_step & 2) != 0;
				struct json_object *patch = LIB(json_object_new_array());
				struct json_object *el = LIB(json_object_new_object());
				struct json_object *base = LIB(json_tokener_parse(repl ? "{\"k\":1}" : "{}"));
				if (!patch || !el || !base)
				{
					s.errors.push_back("C18:harness-allocation|could not build the patch document");
					continue;
				}
				LIB(json_object_object_add(el, "op", json_object_new_string(repl ? "replace" : "add")));
				LIB(json_object_object_add(el, "path", json_object_new_string(fail ? (repl ? "/k/x" : "/missing/x") : "/k")));
				LIB(json_object_object_add(el, "value", json_object_get(s.nodes[n])));
				LIB(json_object_array_add(patch, el));
				struct json_patch_error perr;
				memset(&perr, 0, sizeof perr);
				int rc = LIB(json_patch_apply(nullptr, patch, &base, &perr));
				if (fail ? rc >= 0 : rc != 0)
					s.errors.push_back(std::string("C18:patch-result|json_patch_apply ") + (repl ? "replace" : "add") + " with a shared node as value returned " + std::to_string(rc) +
					                   (fail ? " although the target path cannot be stored to" : " although the target path exists"));
				else if (!fail && LIB(json_object_object_get(base, "k")) != s.nodes[n])
					s.errors.push_back("C18:patch-result|after a successful patch the target document does not hold the shared node");
				if (base)
					LIBV(json_object_put(base));
				LIBV(json_object_put(patch));
				s.patched = true;
				if (fail)
					s.patch_failed = true;
			}
			else if (action == 3 && (int)(n % (size_t)s.nthreads) == t)
			{
				if (s.owned[(size_t)t][n] <= 0)
					continue;
				// ONE designated owner re-installs the node's userdata/deleter while it holds a reference (nobody else touches these
				// fields); its later put publishes the new values to whichever thread ends up destroying the node
				t_retagging = true;
				LIBV(json_object_set_userdata(s.nodes[n], (void *)(intptr_t)n, node_deleted));
				t_retagging = false;
				s.retagged = true;
			}
			else
			{
				if (s.owned[(size_t)t][n] <= 0)
					continue;
				// reading immutable parts of a node one holds a reference to is allowed concurrently
				(void)LIB(json_object_get_type(s.nodes[n]));
				if (json_object_get_type(s.nodes[n]) == json_type_int)
					(void)LIB(json_object_get_int64(s.nodes[n]));
				else if (json_object_get_type(s.nodes[n]) == json_type_array)
					(void)LIB(json_object_array_length(s.nodes[n]));
			}
		}
		// the private container goes first: its teardown releases the references it holds
		if (priv)
		{
			for (size_t n = 0; n < s.nodes.size(); n++)
				if (priv_has[n])
					s.held[(size_t)t][n] = 0; // from here on these references are being released
			LIBV(json_object_put(priv));
		}
		// release whatever is still owned
		for (size_t n = 0; n < s.nodes.size(); n++)
			while (s.owned[(size_t)t][n] > 0)
			{
				s.owned[(size_t)t][n]--;
				int rc = LIB(json_object_put(s.nodes[n]));
				if (rc == 1)
				{
					s.freed_returns[n]++;
					if (s.destroyed[n] != 1)
						s.errors.push_back("C18:put-freed-without-destruction|json_object_put returned 1 for node " + std::to_string(n) + " but its destruction callback ran " +
						                   std::to_string(s.destroyed[n]) + " time(s)");
				}
			}
	}

	// ---- W4
	struct TreeJob
	{
		std::string text;
		int salt;
		std::string result;
	};
	static std::vector<TreeJob> *g_jobs;
	static std::string tree_work(const std::string &text, int salt)
	{
		// parse -> mutate -> serialise -> deep copy -> pointer -> free; everything on thread-private objects
		std::string out;
		// one in three jobs also selects a THREAD-scoped double format for itself: the other threads must not notice
		bool own_format = salt % 3 == 0;
		if (own_format)
			LIB(json_c_set_serialization_double_format("%.3f", JSON_C_OPTION_THREAD));
		std::string t = text;
		t.push_back('\0');
		struct json_tokener *tok = LIB(json_tokener_new());
		struct json_object *o = LIB(json_tokener_parse_ex(tok, t.data(), (int)t.size()));
		out += "e" + std::to_string((int)json_tokener_get_error(tok)) + ";";
		LIBV(json_tokener_free(tok));
		struct json_object *root = LIB(json_object_new_object());
		LIB(json_object_object_add(root, "doc", o));
		struct json_object *arr = LIB(json_object_new_array());
		for (int i = 0; i < 3 + salt % 5; i++)
			LIB(json_object_array_add(arr, json_object_new_int64(i * salt)));
		LIB(json_object_array_add(arr, json_object_new_double(salt / 8.0)));
		LIB(json_object_array_add(arr, json_object_new_string("str")));
		LIB(json_object_object_add(root, "arr", arr));
		for (int i = 0; i < 14; i++)
		{
			std::string k = "key" + std::to_string((i * 7 + salt) % 11);
			LIB(json_object_object_add(root, k.c_str(), json_object_new_int(i)));
		}
		LIBV(json_object_object_del(root, "key3"));
		LIB(json_object_array_put_idx(arr, 9, json_object_new_boolean(1)));
		LIB(json_object_array_del_idx(arr, 0, 1));
		out += LIB(json_object_to_json_string_ext(root, JSON_C_TO_STRING_PLAIN));
		struct json_object *cp = nullptr;
		LIB(json_object_deep_copy(root, &cp, nullptr));
		out += LIB(json_object_equal(root, cp)) ? ";eq" : ";NE";
		struct json_object *got = nullptr;
		out += LIB(json_pointer_get(root, "/arr/1", &got)) == 0 ? ";" + typed_dump(got) : ";-";
		LIB(json_pointer_set(&cp, "/arr/0", json_object_new_string("set")));
		out += LIB(json_object_to_json_string_ext(cp, JSON_C_TO_STRING_SPACED | JSON_C_TO_STRING_PRETTY));
		// convenience parser, the print buffer's formatted append on a private buffer, and a constant-key add: entry points that
		// could hide a process-wide scratch area or cache behind a thread-private interface
		{
			enum json_tokener_error verr = json_tokener_success;
			struct json_object *vo = LIB(json_tokener_parse_verbose(text.c_str(), &verr));
			out += ";pv:" + std::to_string((int)verr) + ":" + typed_dump(vo);
			if (vo)
				LIBV(json_object_put(vo));
			struct printbuf *pb = LIB(printbuf_new());
			if (pb)
			{
				LIB(sprintbuf(pb, "%d|%s|%d", salt, text.substr(0, 40).c_str(), salt * 7));
				LIB(sprintbuf(pb, "#%05d", salt));
				out += ";pb:" + std::string(pb->buf, (size_t)pb->bpos);
				LIBV(printbuf_free(pb));
			}
			static const char *const_keys[4] = {"const-alpha", "const-beta", "const-gamma", "const-delta"};
			const char *ck = const_keys[salt % 4];
			LIB(json_object_object_add_ex(root, ck, json_object_new_int(salt), JSON_C_OBJECT_ADD_CONSTANT_KEY | JSON_C_OBJECT_ADD_KEY_IS_NEW));
			struct json_object *cv = nullptr;
			out += LIB(json_object_object_get_ex(root, ck, &cv)) ? ";ck:" + typed_dump(cv) : std::string(";ck:LOST");
		}
		// the same text through the descriptor entry point, each thread on its own (simulated) file
		{
			std::string path = "/jsim/w4-" + std::to_string(salt) + "-" + std::to_string(std::hash<std::string>{}(text)) + ".json";
			g_fd.files[path] = text;
			int fd = g_fd.open_sim(path, true, false, false, false);
			struct json_object *fo = LIB(json_object_from_fd(fd));
			close(fd);
			out += ";fd:" + typed_dump(fo);
			if (fo)
				LIBV(json_object_put(fo));
		}
		struct json_object *ref = LIB(json_object_get(root));
		LIBV(json_object_put(ref));
		LIBV(json_object_put(cp));
		LIBV(json_object_put(root));
		if (own_format)
			LIB(json_c_set_serialization_double_format(nullptr, JSON_C_OPTION_THREAD));
		return out;
	}
	static void w4_thread(void *argp)
	{
		int t = ((ThreadArg *)argp)->t;
		TreeJob &j = (*g_jobs)[(size_t)t];
		j.result = tree_work(j.text, j.salt);
	}

	// ---- W3
	static void seed_yield_hook()
	{
		Shared &s = *g_sh;
		s.seed_calls++;
		s.threads_past_test++;
		simthr_yield(2);
	}
	static void w3_thread(void *)
	{
		Shared &s = *g_sh;
		struct json_object *o = LIB(json_object_new_object());
		struct lh_table *tb = LIB(json_object_get_object(o));
		unsigned long h1 = LIB(lh_get_hash(tb, "fixed-key"));
		LIB(json_object_object_add(o, "fixed-key", json_object_new_int(1)));
		LIB(json_object_object_add(o, "other", json_object_new_int(2)));
		struct json_object *v = nullptr;
		if (!LIB(json_object_object_get_ex(o, "fixed-key", &v)) || !v)
			s.errors.push_back("C18:lookup-lost-key|a key inserted by this thread is not found (hash changed between insert and lookup)");
		unsigned long h2 = LIB(lh_get_hash(tb, "fixed-key"));
		s.hashes.push_back(h1);
		s.hashes.push_back(h2);
		LIBV(json_object_put(o));
	}

	static std::string fname(const void *pc)
	{
		bool jc = false;
		const char *n = sym_lookup((void *)((uintptr_t)pc - 1), &jc);
		return n ? n : "?";
	}

	bool process_dirty = false; // this process has already used the default key hash

	void run(const Plan &p, RunCtx &ctx) override
	{
		int workload = (int)p.c("workload", 1);
		bool virgin4 = workload == 4 && p.c("virgin") != 0;
		if ((workload == 3 || virgin4) && (process_dirty || !getenv("JSIM_EMIT_COV")))
		{
			// (always in a child: a seed-race run executed directly would leave ITS winner's seed in this worker process, and the
			//  event logs of later runs depend on the seed value through the number of probe steps in the hash tables)
			// the seed can be set once per process: run this plan in a virgin process and adopt what it observed
			Outcome o;
			if (!execute_plan_fresh_process(*this, p, o))
				ctx.fail("C18:harness", "could not start a fresh process");
			adopt_outcome(ctx, o);
			ctx.check();
			return;
		}
		if (workload != 3 && !process_dirty)
		{
			// draw the process-wide hash seed BEFORE the simulated part, so that the event log of this run does not depend on
			// whether an earlier run of this process already drew it (the draw adds yield points and atomics)
			struct json_object *prime = LIB(json_object_new_object());
			if (prime)
			{
				LIB(json_object_object_add(prime, "prime", nullptr));
				LIBV(json_object_put(prime));
			}
		}
		process_dirty = true;
		Shared s;
		s.ctx = &ctx;
		g_sh = &s;
		std::vector<TreeJob> jobs;
		g_jobs = &jobs;
		struct Guard
		{
			~Guard()
			{
				g_sh = nullptr;
				g_jobs = nullptr;
				g_seed.yield_hook = nullptr;
			}
		} guard;
		int nthreads = (int)p.c("threads", 2);
		if (nthreads < 2)
			nthreads = 2;
		if (nthreads > 4)
			nthreads = 4;
		s.nthreads = nthreads;
		struct simthr_config cfg;
		memset(&cfg, 0, sizeof cfg);
		cfg.seed = (uint64_t)p.c("sched_seed", 1);
		cfg.switch_permille_atomic = (int)p.c("p_atomic", 300);
		cfg.switch_permille_watched = (int)p.c("p_watched", 300);
		cfg.switch_permille_other = (int)p.c("p_other", 20);
		cfg.pct_depth = (int)p.c("pct", 0);
		cfg.expected_steps = 200;
		ctx.probe(cfg.pct_depth ? "sched.pct_policy" : "sched.random_policy");
		std::vector<ThreadArg> targs((size_t)nthreads);
		std::vector<std::string> refs; // W4 single-thread references
		size_t nchildren = 0;
		if (workload == 1)
		{
			// ---- build shared nodes (controller, before the threads exist): parents first, then the children of the containers.
			// Children are shared nodes of their own: a thread may hold references to a child while another thread drops the last
			// reference to its parent (the parent's slot reference is then released by whoever destroys the parent).
			std::vector<int> kinds;
			for (auto &op : p.ops)
				if (op.kind == "node" && kinds.size() < 3)
					kinds.push_back((int)(op.arg(0) % 4));
			if (kinds.empty())
				return;
			size_t np = kinds.size();
			for (size_t i = 0; i < np; i++)
			{
				struct json_object *o;
				switch (kinds[i])
				{
				case 0: o = LIB(json_object_new_int64(77)); break;
				case 1: o = LIB(json_object_new_string("a shared string")); break;
				case 2: o = LIB(json_object_new_array()); break;
				default: o = LIB(json_object_new_object()); break;
				}
				LIBV(json_object_set_userdata(o, (void *)(intptr_t)i, node_deleted));
				s.nodes.push_back(o);
				s.parent_of.push_back(-1);
			}
			for (size_t i = 0; i < np; i++)
				if (kinds[i] >= 2)
					for (int k = 0; k < 2; k++)
					{
						struct json_object *c = LIB(json_object_new_int64(k));
						LIBV(json_object_set_userdata(c, (void *)(intptr_t)s.nodes.size(), node_deleted));
						if (kinds[i] == 2)
							LIB(json_object_array_add(s.nodes[i], c));
						else
							LIB(json_object_object_add(s.nodes[i], k ? "b" : "a", c));
						s.nodes.push_back(c);
						s.parent_of.push_back((int)i);
						nchildren++;
					}
			size_t nn = s.nodes.size();
			s.destroyed.assign(nn, 0);
			s.destroyed_by.assign(nn, -1);
			s.freed_returns.assign(nn, 0);
			s.owned.assign((size_t)nthreads, std::vector<int>(nn, 0));
			s.held.assign((size_t)nthreads, std::vector<int>(nn, 0));
			s.in_priv.assign(nn, false);
			s.script.assign((size_t)nthreads, {});
			for (auto &op : p.ops)
			{
				int t = (int)(op.arg(0) % nthreads);
				if (op.kind == "own")
				{
					for (size_t n = 0; n < np; n++)
						s.owned[(size_t)t][n] = (int)(op.arg(1 + n) % 3);
					for (size_t n = np; n < nn; n++)
						s.owned[(size_t)t][n] = (int)((op.arg(1 + (n % np)) + (int64_t)n + t) % 2); // some threads also hold a child
				}
				else if (op.kind == "t")
					s.script[(size_t)t].push_back({(int)(op.arg(1) % 7), (int)(op.arg(2) % (int64_t)nn)});
			}
			// every parent must be owned by somebody: thread 0 takes one reference of otherwise unowned parents
			for (size_t n = 0; n < np; n++)
			{
				int tot = 0;
				for (int t = 0; t < nthreads; t++)
					tot += s.owned[(size_t)t][n];
				if (tot == 0)
					s.owned[0][n] = 1;
			}
			// hand out the references: a parent's creator reference becomes the first one, the rest are acquired with get;
			// a child's creator reference went to its parent's slot, so every thread reference to a child is an extra get
			for (size_t n = 0; n < nn; n++)
			{
				int tot = 0;
				for (int t = 0; t < nthreads; t++)
					tot += s.owned[(size_t)t][n];
				for (int k = (n < np ? 1 : 0); k < tot; k++)
					LIB(json_object_get(s.nodes[n]));
				if (n >= np && tot > 0)
					ctx.probe("W1.thread_holds_child_of_shared_container");
			}
		}
		else if (workload == 4)
		{
			for (auto &op : p.ops)
				if (op.kind == "tree" && jobs.size() < 3)
					jobs.push_back({op.data, (int)(op.arg(1) % 1000), ""});
			if (jobs.size() < 2)
				return;
			nthreads = (int)jobs.size();
			if (!virgin4)
				for (auto &j : jobs)
					refs.push_back(tree_work(j.text, j.salt)); // single-thread reference, before the simulation
			else
				ctx.probe("W4.threads_are_first_users_in_a_fresh_process");
		}
		else
		{
			s.minus_one_left = (int)(p.ops.empty() ? 0 : p.ops[0].arg(0) % 3);
			bool zero_candidate = !p.ops.empty() && (p.ops[0].arg(0) / 3) % 3 == 1; // the first acceptable candidate is 0: an ordinary seed value
			// different candidate for every caller; some answers are the forbidden value -1
			g_seed.queue.clear();
			for (int i = 0; i < 16; i++)
				g_seed.queue.push_back(i < s.minus_one_left ? 0xffffffffu : (i == s.minus_one_left && zero_candidate) ? 0u : (uint32_t)(0x1000 + 7919 * i));
			g_seed.pos = 0;
			g_seed.yield_hook = seed_yield_hook;
			if (s.minus_one_left)
				ctx.probe("W3.seed_source_returned_minus_one");
		}
		// ---- simulate
		simthr_begin(&cfg);
		if (workload == 1)
			for (auto *n : s.nodes)
				simthr_watch(n, 64);
		for (int t = 0; t < nthreads; t++)
		{
			targs[(size_t)t].t = t;
			simthr_spawn(workload == 1 ? w1_thread : workload == 4 ? w4_thread : w3_thread, &targs[(size_t)t]);
		}
		simthr_run();
		struct simthr_stats st;
		simthr_end(&st);
		g_seed.yield_hook = nullptr;
		ctx.count("steps.yield_points", st.yields);
		ctx.count("steps.context_switches", st.switches);
		ctx.count("steps.atomic_operations", st.atomics);
		ctx.count("steps.instrumented_accesses", st.plain_accesses);
		if (st.atomics)
			ctx.probe("atomics.seen");
		if (st.rmw_split_switches && workload == 1)
			ctx.count("n.switches_inside_plain_write_to_shared_node", st.rmw_split_switches);
		ctx.log("workload %d threads=%d yields=%llu switches=%llu sched=%016llx", workload, nthreads, (unsigned long long)st.yields, (unsigned long long)st.switches,
		        (unsigned long long)st.sched_hash);
		char ih[40];
		snprintf(ih, sizeof ih, "il|%016llx", (unsigned long long)st.sched_hash);
		ctx.cover(ih);
		if (st.switches > 0)
			ctx.nontrivial = true;
		// ---- oracles
		for (int i = 0; i < st.nraces; i++)
		{
			const simthr_race &r = st.races[i];
			std::string f1 = fname(r.pc_prev), f2 = fname(r.pc_cur);
			if (f1 == "lh_char_hash" && f2 == "lh_char_hash")
				continue; // the volatile pre-test of the seed vs the compare-and-swap: by design, checked semantically below
			if (r.use_after_free == 2)
				ctx.fail("C18:double-free@" + f2, "a block freed by thread %d (in %s) was freed again by thread %d (in %s)", r.tid_prev, f1.c_str(), r.tid_cur, f2.c_str());
			if (r.use_after_free)
				ctx.fail("C18:use-after-free@" + f2, "thread %d accessed memory in %s that thread %d had freed in %s", r.tid_cur, f2.c_str(), r.tid_prev, f1.c_str());
			ctx.fail("C18:data-race@" + f2 + "/" + f1, "unsynchronised %s%s by thread %d in %s conflicts with %s%s by thread %d in %s (no happens-before between them)",
			         r.cur_atomic ? "atomic " : "", r.cur_is_write ? "write" : "read", r.tid_cur, f2.c_str(), r.prev_atomic ? "atomic " : "", r.prev_is_write ? "write" : "read", r.tid_prev,
			         f1.c_str());
		}
		if (!s.errors.empty())
		{
			std::string e = s.errors[0];
			size_t bar = e.find('|');
			ctx.fail(e.substr(0, bar), "%s", e.substr(bar + 1).c_str());
		}
		if (workload == 1)
		{
			for (size_t n = 0; n < s.nodes.size(); n++)
			{
				if (s.destroyed[n] != 1)
					ctx.fail(s.destroyed[n] == 0 ? "C18:never-destroyed" : "C18:destroyed-twice", "node %zu: every reference was released but its destruction callback ran %d time(s) (lost update on the counter)", n,
					         s.destroyed[n]);
				if (s.parent_of[n] < 0 && !s.in_priv[n] ? s.freed_returns[n] != 1 : s.freed_returns[n] > 1)
					ctx.fail("C18:put-return-mismatch", "node %zu: %d call(s) of json_object_put by the threads returned 1 (a node dies once: exactly one for a parent, at most one for a child)", n,
					         s.freed_returns[n]);
				if (s.destroyed_by[n] > 1)
					ctx.probe("W1.last_put_by_non_creator_thread");
			}
			for (size_t n = 0; n < s.nodes.size(); n++)
				if (s.parent_of[n] >= 0)
					ctx.probe("W1.container_children_destroyed_once");
			if (nthreads >= 3)
				ctx.probe("W1.three_or_more_threads");
			if (st.rmw_split_switches)
				ctx.probe("W1.switch_between_load_and_store_of_counter");
			if (st.switches)
				ctx.probe("W1.switch_inside_put_before_destroy");
			if (s.retagged)
				ctx.probe("W1.owner_replaces_userdata_before_its_put");
			if (s.readded)
				ctx.probe("W1.same_node_readded_to_private_container");
			if (s.copied)
				ctx.probe("W1.deep_copy_of_shared_node");
			if (s.patched)
				ctx.probe("W1.shared_node_as_patch_value");
			if (s.patch_failed)
				ctx.probe("W1.patch_store_step_failed_reference_returned");
			ctx.cover("W1|threads" + std::to_string(nthreads) + "|nodes" + std::to_string(s.nodes.size()));
		}
		else if (workload == 4)
		{
			if (virgin4)
				for (auto &j : jobs)
					refs.push_back(tree_work(j.text, j.salt)); // (reference taken afterwards: nothing ran in this process before the threads)
			for (size_t i = 0; i < jobs.size(); i++)
				if (jobs[i].result != refs[i])
					ctx.fail("C18:disjoint-trees-interfere", "thread %zu working on its own tree got %s ; alone it gets %s", i, jobs[i].result.substr(0, 200).c_str(), refs[i].substr(0, 200).c_str());
			ctx.probe("W4.disjoint_trees_no_conflict");
			ctx.cover("W4|threads" + std::to_string(nthreads));
		}
		else
		{
			// every hash of the fixed key, in every thread, early and late, and afterwards single-threaded, must be equal
			// (selecting the default hash again - a no-op for a seed that is fixed once - must not change it either)
			if (!p.ops.empty() && (p.ops[0].arg(0) / 9) % 2 == 1)
			{
				LIB(json_global_set_string_hash(JSON_C_STR_HASH_DFLT));
				ctx.probe("W3.default_hash_selected_again_after_first_use");
			}
			struct json_object *o = LIB(json_object_new_object());
			unsigned long after = LIB(lh_get_hash(json_object_get_object(o), "fixed-key"));
			LIBV(json_object_put(o));
			for (size_t i = 0; i < s.hashes.size(); i++)
				if (s.hashes[i] != after)
					ctx.fail("C18:seed-not-fixed-once", "observation %zu (thread %zu, %s) hashed the key to %lx but after the run it hashes to %lx: the seed changed after first use", i, i / 2,
					         i % 2 ? "late" : "early", s.hashes[i], after);
			if (s.seed_calls >= 2 + s.minus_one_left)
			{
				ctx.probe("W3.two_threads_past_unset_test_before_cas");
				ctx.probe("W3.lost_cas_thread_uses_winner_seed");
			}
			ctx.cover("W3|threads" + std::to_string(nthreads) + "|seedcalls" + std::to_string(s.seed_calls > 4 ? 4 : s.seed_calls));
		}
		if (!g_alloc.live.empty())
			ctx.fail("C18:leak@" + g_alloc.first_live_site(), "%zu allocation(s) remain after all threads finished:%s", g_alloc.live.size(), g_alloc.describe_live().c_str());
	}
};
C18::Shared *C18::g_sh = nullptr;
thread_local bool C18::t_retagging = false;
std::vector<C18::TreeJob> *C18::g_jobs = nullptr;
REGISTER_PROPERTY(C18)
} // namespace
#endif
