// C06 — a JSON object behaves as an insertion-ordered map under any operation history.
// Two simulated layers.  (L) lh_table_* directly with tiny tables (size 1..8) and caller-supplied hash functions (constant,
// first byte, seeded) so wrap-around, tombstone chains and resizes happen within a few ops.  (O) the json_object API with both
// string hashes, the default hash seeded through the seed seam (one seed per worker process, recorded in the plan), a key pool
// large enough to collide constantly, delete/insert churn, add_ex flags within their preconditions, deletion of the current
// key inside a foreach.  Faulted batch: key copy / table resize allocations fail.
// Oracle after every op: length, lookup of every key of the pool, and the key/value sequence obtained through foreach,
// foreachC, the iterator API, json_c_visit and the member order of the serialization all equal a vector-of-pairs model.
#include "common.h"
#include <algorithm>
extern "C" {
#include "linkhash.h"
#include "json_visit.h"
}

extern "C" {
#include "json_patch.h"
}
extern "C" size_t jsim_ansi_foreach_del(struct json_object *obj, size_t first, int stride, void (*seen)(void *, const char *, struct json_object *), void *ctx);

namespace
{
static const char *const kStaticKeys[6] = {"static-key-0", "static-key-1", "sk2", "", "static key with spaces and \"quotes\"", "k7"};

// a copy of a key placed at a chosen misalignment (0..3): hashing and comparing must not depend on where the caller's bytes live
struct KeyAt
{
	std::vector<char> b;
	const char *p;
	KeyAt(const std::string &k, size_t off) : b(k.size() + 1 + 8, '\0')
	{
		off %= 4;
		memcpy(b.data() + off, k.data(), k.size());
		b[off + k.size()] = '\0';
		p = b.data() + off;
	}
};

struct C06 : Property
{
	const char *id() const override { return "C06"; }
	const char *level() const override { return "exploration"; }
	uint64_t runs(Tier t) const override { return t == QUICK ? 120000 : 4000000; }
	int recycle_every() const override { return 400; } // a new worker process (and hash seed) every 400 runs
	std::string rule() const override
	{
		return "seeded histories (<=60 ops). Layer O: json_object_object_add / add_ex(KEY_IS_NEW, CONSTANT_KEY) / del / get_ex / length over a pool of 72 keys passed at every pointer alignment (incl. empty, 300-byte, lengths 10/11/22/23, "
		       "odd-byte and static keys), hash function DFLT (process seed from the seed seam, a new seed every 400 runs) or PERLLIKE, delete-while-iterating; layer L: "
		       "lh_table_new(size 1..8) with constant / first-byte / seeded caller hashes, put / delete / lookup / explicit resize. Odd run indices attach allocation failures. "
		       "A run is non-trivial if it re-inserted a deleted key, replaced a value, grew the table or had an op refused; distinct = distinct sets of "
		       "(layer, op, key state, outcome, size class) keys.";
	}
	std::vector<std::string> assumptions() const override
	{
		return {"caller preconditions respected: KEY_IS_NEW only for absent keys, CONSTANT_KEY only with static strings, no additions inside a foreach, layer L looks a key up before inserting it",
		        "the hash seed is process-wide state: it is part of the run configuration (cfg hash_seed_base) and re-installed by replaying in a fresh process"};
	}
	std::vector<std::string> probes() const override
	{
		return {"O.replace_keeps_position", "O.reinsert_after_delete_goes_last", "O.delete_absent_key", "O.growth_with_tombstones", "O.delete_current_key_in_foreach", "O.add_ex_key_is_new",
		        "O.add_ex_constant_key", "O.empty_key", "O.long_key", "O.perllike_hash", "O.default_hash", "O.alloc_failure_leaves_map_unchanged", "L.table_size_1", "L.constant_hash_all_collide",
		        "L.explicit_resize", "L.tombstone_reuse", "L.alloc_failure_leaves_map_unchanged", "seed_source_consulted", "O.delete_current_member_in_visitor", "O.global_hash_switched_while_object_lives", "seed_source_returned_minus_one_first", "L.delete_entry_two_step", "L.delete_current_entry_in_foreach_safe", "O.delete_current_key_in_ansi_foreach", "O.replace_through_json_patch"};
	}
	std::map<std::string, int64_t> cfg_defaults() const override { return {{"perllike", 0}, {"first_draws_minus_one", 0}, {"first_real_draw_zero", 0}}; }

	void process_init(uint64_t process_seed) override { g_seed.base = process_seed | 1; }
	void stamp_process_cfg(Plan &p) override { p.cfg["hash_seed_base"] = (int64_t)g_seed.base; }
	void apply_process_cfg(const Plan &p) override
	{
		if (p.cfg.count("hash_seed_base"))
			g_seed.base = (uint64_t)p.c("hash_seed_base");
	}

	static std::vector<std::string> key_pool()
	{
		std::vector<std::string> v;
		for (int i = 0; i < 56; i++)
			v.push_back("k" + std::to_string(i));
		v.push_back("");
		v.push_back(std::string(300, 'L'));
		v.push_back("a/b~c\"d\\e");
		v.push_back("\x01\x7f\xc3\xa9\xff");
		// lengths 10, 11, 22, 23 (the default hash reads keys in 12-byte blocks with alignment-dependent tails)
		v.push_back("abcdEFghij");
		v.push_back("abcdEFghijk");
		v.push_back("0123456789abABcdCDefgh");
		v.push_back("0123456789abABcdCDefghi");
		v.push_back("K0");
		v.push_back(" ");
		for (int i = 0; i < 6; i++)
			v.push_back(kStaticKeys[i]);
		return v;
	}

	Plan generate(Rng &r, Tier, uint64_t index) override
	{
		Plan p;
		bool faulted = index & 1;
		p.cfg["faulted"] = faulted;
		int layer = r.chance(1, 3) ? 1 : 0; // 1 = lh_table directly
		p.cfg["layer"] = layer;
		p.cfg["perllike"] = r.chance(1, 3);
		if (layer == 0 && !p.cfg["perllike"] && r.chance(1, 100))
		{
			p.cfg["first_draws_minus_one"] = (int64_t)r.range(0, 2);
			p.cfg["first_real_draw_zero"] = p.cfg["first_draws_minus_one"] == 0 ? 1 : (int64_t)r.below(2);
		}
		if (layer == 1)
		{
			p.cfg["tsize"] = (int64_t)r.range(1, 8);
			p.cfg["hashfn"] = (int64_t)r.below(3);
			p.cfg["hseed"] = (int64_t)r.below(1000000);
		}
		int nops = (int)r.range(4, 60);
		// swarm: per-run key subset size (small => churn on few keys, large => growth)
		int nkeys = (int)r.pick(std::vector<int>{3, 6, 12, 25, 72});
		int key_off = (int)r.below(72);
		for (int i = 0; i < nops; i++)
		{
			Op op;
			int64_t key = (key_off + (int64_t)r.below((uint64_t)nkeys)) % 72;
			switch (r.below(12))
			{
			case 0:
			case 1:
			case 2:
			case 3: op.kind = "add"; op.a = {key, (int64_t)r.below(6)}; break;
			case 4: op.kind = "addex"; op.a = {key, (int64_t)r.below(6), (int64_t)r.below(4)}; break;
			case 5:
			case 6:
			case 7: op.kind = "del"; op.a = {key}; break;
			case 8: op.kind = r.chance(1, 2) ? "sethash" : "get"; op.a = {key, (int64_t)r.below(2)}; break;
			case 9: op.kind = r.chance(1, 3) ? "visitdel" : "iterdel"; op.a = {(int64_t)r.below(8), (int64_t)r.below(3), (int64_t)r.below(2)}; break;
			case 10: op.kind = layer == 1 ? "resize" : "add"; op.a = {layer == 1 ? (int64_t)r.range(1, 40) : key, (int64_t)r.below(6)}; break;
			default: op.kind = "add"; op.a = {key, (int64_t)r.below(6)}; break;
			}
			if (faulted && (op.kind == "add" || op.kind == "addex" || op.kind == "resize") && r.chance(1, 3))
			{
				Fault f;
				f.kind = "alloc";
				f.a = {(int64_t)r.below(3)};
				op.faults.push_back(f);
			}
			p.ops.push_back(op);
		}
		return p;
	}

	// ---------------------------------------------------------------- shared observers
	static std::vector<int64_t> *g_destroyed;
	static void on_delete(struct json_object *, void *ud)
	{
		HarnessScope hs;
		if (g_destroyed)
			g_destroyed->push_back((int64_t)(intptr_t)ud);
	}
	struct Pair
	{
		std::string key;
		struct json_object *val; // may be NULL (json null member)
		int64_t id;
	};
	typedef std::vector<std::pair<std::string, struct json_object *>> Seq;

	struct VisitAcc
	{
		Seq seq;
		struct json_object *root;
	};
	static int visit_cb(json_object *jso, int flags, json_object *parent, const char *key, size_t *, void *arg)
	{
		HarnessScope hs;
		VisitAcc *a = (VisitAcc *)arg;
		if (parent == a->root && !(flags & JSON_C_VISIT_SECOND))
			a->seq.push_back({key ? key : "<null>", jso});
		return JSON_C_VISIT_RETURN_CONTINUE;
	}

	struct VisitDel
	{
		Seq seq;
		struct json_object *root;
		size_t first, stride, i = 0;
	};
	static int visit_del_cb(json_object *jso, int flags, json_object *parent, const char *key, size_t *, void *arg)
	{
		VisitDel *a = (VisitDel *)arg;
		if (parent != a->root || (flags & JSON_C_VISIT_SECOND))
			return JSON_C_VISIT_RETURN_CONTINUE;
		{
			HarnessScope hs;
			a->seq.push_back({key ? key : "<null>", jso});
		}
		size_t i = a->i++;
		if (i >= a->first && (i - a->first) % a->stride == 0)
		{
			json_object_object_del(parent, key);
			return JSON_C_VISIT_RETURN_SKIP;
		}
		return JSON_C_VISIT_RETURN_CONTINUE;
	}

	static std::string seq_str(const Seq &s)
	{
		std::string o;
		for (auto &kv : s)
			o += printable(kv.first, 12) + " ";
		return o;
	}

	void verify_object(RunCtx &ctx, struct json_object *obj, const std::vector<Pair> &model, const std::vector<std::string> &pool, size_t oi, const char *after)
	{
		int n = LIB(json_object_object_length(obj));
		if (n != (int)model.size())
			ctx.fail("C06:length-mismatch", "op %zu (%s): length %d, model %zu", oi, after, n, model.size());
		// lookups of every key of the pool, live or not
		size_t kidx = 0;
		for (auto &k : pool)
		{
			struct json_object *v = (struct json_object *)0x1;
			KeyAt ka(k, oi + kidx++);
			int found = LIB(json_object_object_get_ex(obj, ka.p, &v));
			const Pair *m = nullptr;
			for (auto &pr : model)
				if (pr.key == k)
					m = &pr;
			if ((found != 0) != (m != nullptr))
				ctx.fail("C06:lookup-mismatch", "op %zu (%s): key '%s' %s but the model %s it", oi, after, printable(k, 20).c_str(), found ? "is found" : "is not found",
				         m ? "contains" : "does not contain");
			// membership test: the value pointer may be NULL (documented)
			if ((LIB(json_object_object_get_ex(obj, ka.p, nullptr)) != 0) != (m != nullptr))
				ctx.fail("C06:lookup-mismatch", "op %zu (%s): json_object_object_get_ex('%s', NULL) disagrees with the model (%s)", oi, after, printable(k, 20).c_str(), m ? "present" : "absent");
			if (m && v != m->val)
				ctx.fail("C06:lookup-wrong-value", "op %zu (%s): key '%s' maps to %s, model has %s", oi, after, printable(k, 20).c_str(), typed_dump(v).c_str(), typed_dump(m->val).c_str());
			if (LIB(json_object_object_get(obj, k.c_str())) != (m ? m->val : nullptr))
				ctx.fail("C06:lookup-wrong-value", "op %zu (%s): json_object_object_get('%s') disagrees with the model", oi, after, printable(k, 20).c_str());
		}
		Seq want;
		for (auto &pr : model)
			want.push_back({pr.key, pr.val});
		auto cmp = [&](const Seq &got, const char *how) {
			if (got != want)
				ctx.fail(std::string("C06:iteration-mismatch:") + how, "op %zu (%s): %s yields [%s] but the model order is [%s]", oi, after, how, seq_str(got).c_str(), seq_str(want).c_str());
		};
		{
			Seq got;
			LibScope ls;
			json_object_object_foreach(obj, key, val) { got.push_back({key, val}); }
			cmp(got, "foreach");
		}
		{
			Seq got;
			LibScope ls;
			struct json_object_iter it;
			json_object_object_foreachC(obj, it) { got.push_back({it.key, it.val}); }
			cmp(got, "foreachC");
		}
		{
			Seq got;
			LibScope ls;
			struct json_object_iterator it = json_object_iter_begin(obj), end = json_object_iter_end(obj);
			int guard = 0;
			while (!json_object_iter_equal(&it, &end) && guard++ < 100000)
			{
				got.push_back({json_object_iter_peek_name(&it), json_object_iter_peek_value(&it)});
				json_object_iter_next(&it);
			}
			cmp(got, "iterator");
		}
		{
			VisitAcc acc;
			acc.root = obj;
			int rc = LIB(json_c_visit(obj, 0, visit_cb, &acc));
			if (rc < 0)
				ctx.fail("C06:visit-failed", "op %zu: json_c_visit returned %d", oi, rc);
			cmp(acc.seq, "visit");
		}
		{
			// member order of the serialization: rebuild the expected text from the model
			std::string exp = "{";
			for (size_t i = 0; i < model.size(); i++)
			{
				struct json_object *ks = LIB(json_object_new_string_len(model[i].key.data(), (int)model[i].key.size()));
				exp += std::string(i ? "," : "") + ser(ks, JSON_C_TO_STRING_PLAIN) + ":" + (model[i].val ? ser(model[i].val, JSON_C_TO_STRING_PLAIN) : std::string("null"));
				LIBV(json_object_put(ks));
			}
			exp += "}";
			std::string got = ser(obj, JSON_C_TO_STRING_PLAIN);
			if (got != exp)
				ctx.fail("C06:iteration-mismatch:serialization", "op %zu (%s): serialization %s, model %s", oi, after, got.substr(0, 300).c_str(), exp.substr(0, 300).c_str());
		}
	}

	void run_object_layer(const Plan &p, RunCtx &ctx)
	{
		std::vector<std::string> pool = key_pool();
		std::vector<int64_t> destroyed;
		g_destroyed = &destroyed;
		struct Guard
		{
			~Guard()
			{
				g_destroyed = nullptr;
				json_global_set_string_hash(JSON_C_STR_HASH_DFLT);
			}
		} guard;
		bool perl = p.c("perllike") != 0;
		LIB(json_global_set_string_hash(perl ? JSON_C_STR_HASH_PERLLIKE : JSON_C_STR_HASH_DFLT));
		ctx.probe(perl ? "O.perllike_hash" : "O.default_hash");
		long seed_calls_before = g_seed.calls;
		struct json_object *obj = LIB(json_object_new_object());
		if (!obj)
			ctx.fail("C06:new-failed", "json_object_new_object failed");
		std::vector<Pair> model;
		std::set<std::string> ever_deleted;
		int64_t next_id = 1;
		size_t tomb_estimate = 0, grown_at = 16;
		for (size_t oi = 0; oi < p.ops.size(); oi++)
		{
			const Op &op = p.ops[oi];
			std::string cov = "O|" + op.kind;
			destroyed.clear();
			std::vector<int64_t> expect_destroyed;
			if (op.kind == "add" || op.kind == "addex")
			{
				size_t ki = (size_t)(op.arg(0) < 0 ? -op.arg(0) : op.arg(0)) % pool.size();
				unsigned opts = 0;
				bool is_static = ki >= pool.size() - 6;
				const char *keyp = pool[ki].c_str();
				auto find = [&](const std::string &k) {
					for (size_t i = 0; i < model.size(); i++)
						if (model[i].key == k)
							return (long)i;
					return -1L;
				};
				long pos = find(pool[ki]);
				if (op.kind == "addex")
				{
					int64_t want = op.arg(2) % 4;
					if ((want & 1) && pos < 0)
					{
						opts |= JSON_C_OBJECT_ADD_KEY_IS_NEW;
						ctx.probe("O.add_ex_key_is_new");
					}
					if ((want & 2) && is_static)
					{
						opts |= JSON_C_OBJECT_ADD_CONSTANT_KEY;
						keyp = kStaticKeys[ki - (pool.size() - 6)];
						ctx.probe("O.add_ex_constant_key");
					}
				}
				// value: int node with a destruction callback, or null
				Pair np;
				np.key = pool[ki];
				np.id = 0;
				np.val = nullptr;
				if (op.arg(1) % 6 != 0)
				{
					np.id = next_id++;
					np.val = LIB(json_object_new_int64(np.id));
					LIBV(json_object_set_userdata(np.val, (void *)(intptr_t)np.id, on_delete));
				}
				if (pool[ki].empty())
					ctx.probe("O.empty_key");
				if (pool[ki].size() >= 300)
					ctx.probe("O.long_key");
				std::string scratch_key = keyp; // ordinary keys are passed from a buffer that is overwritten afterwards: json-c must copy
				std::vector<char> keybuf(scratch_key.size() + 8, '\0');
				size_t koff = (size_t)(oi + ki) % 4; // ... and that sits at an arbitrary alignment
				memcpy(keybuf.data() + koff, scratch_key.data(), scratch_key.size());
				keybuf.resize(koff + scratch_key.size() + 1);
				const char *passed = (opts & JSON_C_OBJECT_ADD_CONSTANT_KEY) ? keyp : keybuf.data() + koff;
				arm_faults(op, ctx);
				int rc = LIB(json_object_object_add_ex(obj, passed, np.val, opts));
				bool fired = g_alloc.fired > 0;
				tally_faults(ctx);
				disarm_faults();
				if (!(opts & JSON_C_OBJECT_ADD_CONSTANT_KEY))
					for (size_t b = koff; b + 1 < keybuf.size(); b++)
						keybuf[b] = '#'; // the caller's buffer is reused
				if (rc == 0)
				{
					if (pos >= 0)
					{
						if (model[(size_t)pos].val)
							expect_destroyed.push_back(model[(size_t)pos].id);
						model[(size_t)pos].val = np.val;
						model[(size_t)pos].id = np.id;
						ctx.probe("O.replace_keeps_position");
						ctx.nontrivial = true;
						cov += "|replace";
					}
					else
					{
						model.push_back(np);
						if (ever_deleted.count(np.key))
						{
							ctx.probe("O.reinsert_after_delete_goes_last");
							ctx.nontrivial = true;
							cov += "|reinsert";
						}
						else
							cov += "|new";
						if (model.size() * 100 >= grown_at * 66)
						{
							grown_at *= 2;
							ctx.nontrivial = true;
							cov += "|grow";
							if (tomb_estimate)
								ctx.probe("O.growth_with_tombstones");
							tomb_estimate = 0;
						}
					}
				}
				else
				{
					if (!fired)
						ctx.fail("C06:spurious-failure", "op %zu: add of key '%s' failed without an allocation failure", oi, printable(pool[ki], 20).c_str());
					// ownership stays with the caller and the map is unchanged (verified below)
					if (!destroyed.empty())
						ctx.fail("C06:failed-add-released-something", "op %zu: failed add ran %zu destruction callback(s)", oi, destroyed.size());
					if (np.val)
					{
						LIBV(json_object_put(np.val));
						destroyed.clear();
					}
					ctx.probe("O.alloc_failure_leaves_map_unchanged");
					ctx.nontrivial = true;
					cov += "|alloc-failed";
				}
			}
			else if (op.kind == "del")
			{
				size_t ki = (size_t)(op.arg(0) < 0 ? -op.arg(0) : op.arg(0)) % pool.size();
				long pos = -1;
				for (size_t i = 0; i < model.size(); i++)
					if (model[i].key == pool[ki])
						pos = (long)i;
				{
					KeyAt ka(pool[ki], oi + 1);
					LIBV(json_object_object_del(obj, ka.p));
				}
				if (pos >= 0)
				{
					if (model[(size_t)pos].val)
						expect_destroyed.push_back(model[(size_t)pos].id);
					model.erase(model.begin() + pos);
					ever_deleted.insert(pool[ki]);
					tomb_estimate++;
					cov += "|present";
				}
				else
				{
					ctx.probe("O.delete_absent_key");
					cov += "|absent";
				}
			}
			else if (op.kind == "get")
			{
				// (all keys are looked up in verify_object anyway)
				cov += "|lookup";
				// every other "get": replace the value of a live key through the JSON-patch entry point - "a replaced key keeps its position"
				// holds for every way of replacing
				std::vector<size_t> simple;
				for (size_t i = 0; i < model.size(); i++)
					if (model[i].key.size() >= 2 && model[i].key.size() <= 4 && model[i].key[0] == 'k' && model[i].key.find_first_not_of("0123456789", 1) == std::string::npos)
						simple.push_back(i);
				if ((op.arg(1) & 1) && !simple.empty())
				{
					size_t pos = simple[(size_t)(op.arg(0) < 0 ? -op.arg(0) : op.arg(0)) % simple.size()];
					int64_t nid = next_id++;
					std::string ptxt = "[{\"op\":\"replace\",\"path\":\"/" + model[pos].key + "\",\"value\":" + std::to_string(nid) + "}]";
					struct json_object *patch = LIB(json_tokener_parse(ptxt.c_str()));
					struct json_patch_error perr;
					memset(&perr, 0, sizeof perr);
					int prc = LIB(json_patch_apply(nullptr, patch, &obj, &perr));
					LIBV(json_object_put(patch));
					if (prc != 0)
						ctx.fail("C06:patch-replace-failed", "op %zu: json_patch_apply replace of live key '%s' returned %d (%s)", oi, model[pos].key.c_str(), prc, perr.errmsg ? perr.errmsg : "");
					struct json_object *nv = nullptr;
					if (!LIB(json_object_object_get_ex(obj, model[pos].key.c_str(), &nv)) || !nv)
						ctx.fail("C06:lookup-mismatch", "op %zu: key '%s' is gone after a patch replace", oi, model[pos].key.c_str());
					LIBV(json_object_set_userdata(nv, (void *)(intptr_t)nid, on_delete));
					if (model[pos].val)
						expect_destroyed.push_back(model[pos].id);
					model[pos].val = nv;
					model[pos].id = nid;
					ctx.probe("O.replace_through_json_patch");
					ctx.nontrivial = true;
					cov += "|patch-replace";
				}
			}
			else if (op.kind == "sethash")
			{
				// other code selects another hash for FUTURE tables: this object keeps working with the one it was created with
				bool to_perl = op.arg(1) & 1;
				LIB(json_global_set_string_hash(to_perl ? JSON_C_STR_HASH_PERLLIKE : JSON_C_STR_HASH_DFLT));
				ctx.probe("O.global_hash_switched_while_object_lives");
				cov += to_perl ? "|perl" : "|dflt";
			}
			else if (op.kind == "iterdel")
			{
				// delete the current key inside a foreach at the positions selected by the op; the rest of the iteration must be undisturbed
				size_t first = model.empty() ? 0 : (size_t)(op.arg(0) < 0 ? -op.arg(0) : op.arg(0)) % model.size();
				int stride = (int)(op.arg(1) % 3) + 1;
				Seq visited, expect_visit;
				std::vector<std::string> to_delete;
				for (size_t i = 0; i < model.size(); i++)
				{
					expect_visit.push_back({model[i].key, model[i].val});
					if (i >= first && (i - first) % (size_t)stride == 0)
						to_delete.push_back(model[i].key);
				}
				if (op.arg(2) & 1)
				{
					// the strict-ANSI variant of the macro (props/ansi_foreach.c)
					LibScope ls;
					jsim_ansi_foreach_del(
					    obj, first, stride,
					    [](void *c, const char *key, struct json_object *val) {
						    HarnessScope hs;
						    ((Seq *)c)->push_back({key, val});
					    },
					    &visited);
					ctx.probe("O.delete_current_key_in_ansi_foreach");
				}
				else
				{
					LibScope ls;
					size_t i = 0;
					json_object_object_foreach(obj, key, val)
					{
						visited.push_back({key, val});
						if (i >= first && (i - first) % (size_t)stride == 0)
							json_object_object_del(obj, key);
						i++;
					}
				}
				if (visited != expect_visit)
					ctx.fail("C06:delete-during-foreach-disturbs-iteration", "op %zu: iteration with deletion of the current key visited [%s], expected [%s]", oi, seq_str(visited).c_str(),
					         seq_str(expect_visit).c_str());
				for (auto &k : to_delete)
					for (size_t i = 0; i < model.size(); i++)
						if (model[i].key == k)
						{
							if (model[i].val)
								expect_destroyed.push_back(model[i].id);
							model.erase(model.begin() + (long)i);
							ever_deleted.insert(k);
							tomb_estimate++;
							break;
						}
				if (!to_delete.empty())
				{
					ctx.probe("O.delete_current_key_in_foreach");
					ctx.nontrivial = true;
				}
				cov += to_delete.empty() ? "|none" : "|deleted";
			}
			else if (op.kind == "visitdel")
			{
				// the visitor deletes the member it is looking at (and says SKIP so json-c does not descend into it):
				// every other live key must still be visited, in order
				size_t first = model.empty() ? 0 : (size_t)(op.arg(0) < 0 ? -op.arg(0) : op.arg(0)) % model.size();
				int stride = (int)(op.arg(1) % 3) + 1;
				VisitDel vd;
				vd.root = obj;
				vd.first = first;
				vd.stride = (size_t)stride;
				Seq expect_visit;
				std::vector<std::string> to_delete;
				for (size_t i = 0; i < model.size(); i++)
				{
					expect_visit.push_back({model[i].key, model[i].val});
					if (i >= first && (i - first) % (size_t)stride == 0)
						to_delete.push_back(model[i].key);
				}
				int rc = LIB(json_c_visit(obj, 0, visit_del_cb, &vd));
				if (rc < 0)
					ctx.fail("C06:visit-failed", "op %zu: json_c_visit returned %d", oi, rc);
				if (vd.seq != expect_visit)
					ctx.fail("C06:delete-during-visit-disturbs-iteration", "op %zu: visit with deletion of the current member saw [%s], expected [%s]", oi, seq_str(vd.seq).c_str(),
					         seq_str(expect_visit).c_str());
				for (auto &k : to_delete)
					for (size_t i = 0; i < model.size(); i++)
						if (model[i].key == k)
						{
							if (model[i].val)
								expect_destroyed.push_back(model[i].id);
							model.erase(model.begin() + (long)i);
							ever_deleted.insert(k);
							tomb_estimate++;
							break;
						}
				if (!to_delete.empty())
				{
					ctx.probe("O.delete_current_member_in_visitor");
					ctx.nontrivial = true;
				}
				cov += to_delete.empty() ? "|none" : "|deleted";
			}
			std::vector<int64_t> d = destroyed, x = expect_destroyed;
			std::sort(d.begin(), d.end());
			std::sort(x.begin(), x.end());
			if (d != x)
				ctx.fail("C06:release-mismatch", "op %zu (%s): %zu value(s) destroyed, the model expects %zu", oi, op.kind.c_str(), d.size(), x.size());
			cov += model.size() < 11 ? "|n<11" : model.size() < 22 ? "|n<22" : "|n>=22";
			ctx.cover(cov);
			ctx.log("op %zu %s -> n=%zu", oi, cov.c_str(), model.size());
			verify_object(ctx, obj, model, pool, oi, op.kind.c_str());
		}
		if (!perl && g_seed.calls > seed_calls_before)
			ctx.probe("seed_source_consulted");
		destroyed.clear();
		size_t alive = 0;
		for (auto &m : model)
			alive += m.val != nullptr;
		LIBV(json_object_put(obj));
		if (destroyed.size() != alive)
			ctx.fail("C06:teardown-release-mismatch", "destroying the object released %zu value(s), it held %zu", destroyed.size(), alive);
		if (!g_alloc.live.empty())
			ctx.fail("C06:leak@" + g_alloc.first_live_site(), "%zu allocation(s) remain after the object was destroyed:%s", g_alloc.live.size(),
			         g_alloc.describe_live().c_str());
	}

	// ---------------------------------------------------------------- layer L: lh_table directly
	static uint64_t g_hseed;
	static int g_hmode;
	static unsigned long user_hash(const void *k)
	{
		HarnessScope hs;
		const char *s = (const char *)k;
		switch (g_hmode)
		{
		case 0: return 7; // everything collides
		case 1: return (unsigned char)s[0];
		default: return (unsigned long)fnv1a(s, strlen(s), g_hseed);
		}
	}
	static int user_equal(const void *a, const void *b) { return strcmp((const char *)a, (const char *)b) == 0; }
	static std::vector<std::string> *g_freed_keys;
	static void entry_free(struct lh_entry *e)
	{
		HarnessScope hs;
		if (g_freed_keys)
			g_freed_keys->push_back((const char *)lh_entry_k(e));
		free(lh_entry_k(e));
	}

	void run_table_layer(const Plan &p, RunCtx &ctx)
	{
		std::vector<std::string> pool = key_pool();
		int tsize = (int)p.c("tsize", 4);
		if (tsize < 1)
			tsize = 1;
		if (tsize > 64)
			tsize = 64;
		g_hmode = (int)(p.c("hashfn") % 3);
		g_hseed = (uint64_t)p.c("hseed");
		std::vector<std::string> freed;
		g_freed_keys = &freed;
		struct Guard
		{
			~Guard() { g_freed_keys = nullptr; }
		} guard;
		if (tsize == 1)
			ctx.probe("L.table_size_1");
		if (g_hmode == 0)
			ctx.probe("L.constant_hash_all_collide");
		struct lh_table *t = LIB(lh_table_new(tsize, entry_free, user_hash, user_equal));
		if (!t)
			ctx.fail("C06:new-failed", "lh_table_new(%d) failed", tsize);
		std::vector<std::pair<std::string, intptr_t>> model;
		intptr_t next_val = 1;
		size_t deletes_since_growth = 0;
		auto verify = [&](size_t oi, const char *after) {
			if (LIB(lh_table_length(t)) != (int)model.size())
				ctx.fail("C06:length-mismatch", "L op %zu (%s): lh_table_length %d, model %zu", oi, after, LIB(lh_table_length(t)), model.size());
			for (auto &k : pool)
			{
				void *v = (void *)0x1;
				int found = LIB(lh_table_lookup_ex(t, k.c_str(), &v));
				intptr_t want = 0;
				bool have = false;
				for (auto &m : model)
					if (m.first == k)
					{
						have = true;
						want = m.second;
					}
				if ((LIB(lh_table_lookup_ex(t, k.c_str(), nullptr)) != 0) != have)
					ctx.fail("C06:lookup-mismatch", "L op %zu (%s): lh_table_lookup_ex('%s', NULL) disagrees with the model (%s)", oi, after, printable(k, 20).c_str(), have ? "present" : "absent");
				struct lh_entry *we = LIB(lh_table_lookup_entry_w_hash(t, k.c_str(), lh_get_hash(t, k.c_str())));
				if ((we != nullptr) != have || (we && (intptr_t)lh_entry_v(we) != want))
					ctx.fail("C06:lookup-mismatch", "L op %zu (%s): lookup_entry_w_hash('%s') %s, model %s it", oi, after, printable(k, 20).c_str(), we ? "finds an entry" : "finds nothing",
					         have ? "has" : "lacks");
				if ((found != 0) != have || (have && (intptr_t)v != want) || (!have && v != nullptr))
					ctx.fail("C06:lookup-mismatch", "L op %zu (%s): key '%s' found=%d value=%ld, model %s %ld", oi, after, printable(k, 20).c_str(), found, (long)(intptr_t)v,
					         have ? "has" : "lacks", (long)want);
			}
			std::vector<std::pair<std::string, intptr_t>> got;
			{
				LibScope ls;
				struct lh_entry *e;
				int guard2 = 0;
				lh_foreach(t, e)
				{
					got.push_back({(const char *)lh_entry_k(e), (intptr_t)lh_entry_v(e)});
					if (guard2++ > 100000)
						break;
				}
			}
			if (got != model)
			{
				std::string a, b;
				for (auto &g : got)
					a += printable(g.first, 8) + " ";
				for (auto &g : model)
					b += printable(g.first, 8) + " ";
				ctx.fail("C06:iteration-mismatch:lh_foreach", "L op %zu (%s): lh_foreach yields [%s], model [%s]", oi, after, a.c_str(), b.c_str());
			}
			// backwards through prev links
			std::vector<std::string> back;
			{
				LibScope ls;
				struct lh_entry *e = lh_table_head(t), *last = nullptr;
				int guard2 = 0;
				while (e && guard2++ < 100000)
				{
					last = e;
					e = lh_entry_next(e);
				}
				for (e = last; e && guard2++ < 200000; e = lh_entry_prev(e))
					back.push_back((const char *)lh_entry_k(e));
			}
			for (size_t i = 0; i < back.size() && i < model.size(); i++)
				if (back[i] != model[model.size() - 1 - i].first)
					ctx.fail("C06:iteration-mismatch:prev-links", "L op %zu (%s): walking prev links disagrees with the model at position %zu", oi, after, i);
			if (back.size() != model.size())
				ctx.fail("C06:iteration-mismatch:prev-links", "L op %zu (%s): prev-link walk sees %zu entries, model %zu", oi, after, back.size(), model.size());
		};
		size_t cur_size_estimate = (size_t)tsize;
		for (size_t oi = 0; oi < p.ops.size(); oi++)
		{
			const Op &op = p.ops[oi];
			std::string cov = "L|" + op.kind;
			freed.clear();
			std::vector<std::string> expect_freed;
			if (op.kind == "add" || op.kind == "addex")
			{
				size_t ki = (size_t)(op.arg(0) < 0 ? -op.arg(0) : op.arg(0)) % pool.size();
				const std::string &k = pool[ki];
				struct lh_entry *e = LIB(lh_table_lookup_entry(t, k.c_str()));
				long pos = -1;
				for (size_t i = 0; i < model.size(); i++)
					if (model[i].first == k)
						pos = (long)i;
				if ((e != nullptr) != (pos >= 0))
					ctx.fail("C06:lookup-mismatch", "L op %zu: lookup_entry('%s') %s, model %s", oi, printable(k, 20).c_str(), e ? "found" : "not found", pos >= 0 ? "has it" : "lacks it");
				intptr_t val = next_val++;
				if (e)
				{
					LIBV(lh_entry_set_val(e, (void *)val));
					model[(size_t)pos].second = val;
					cov += "|replace";
					ctx.nontrivial = true;
				}
				else
				{
					char *kc = strdup(k.c_str()); // harness-owned copy, released by entry_free
					arm_faults(op, ctx);
					int rc = op.kind == "add" ? LIB(lh_table_insert(t, kc, (void *)val)) : LIB(lh_table_insert_w_hash(t, kc, (void *)val, lh_get_hash(t, kc), 0));
					bool fired = g_alloc.fired > 0;
					tally_faults(ctx);
					disarm_faults();
					if (rc == 0)
					{
						model.push_back({k, val});
						if (deletes_since_growth)
							ctx.probe("L.tombstone_reuse");
						if (model.size() * 100 >= cur_size_estimate * 66)
						{
							cur_size_estimate *= 2;
							deletes_since_growth = 0;
							cov += "|grow";
							ctx.nontrivial = true;
						}
						cov += "|new";
					}
					else
					{
						if (!fired)
							ctx.fail("C06:spurious-failure", "L op %zu: lh_table_insert failed without an allocation failure", oi);
						free(kc);
						ctx.probe("L.alloc_failure_leaves_map_unchanged");
						ctx.nontrivial = true;
						cov += "|alloc-failed";
					}
				}
			}
			else if (op.kind == "del")
			{
				size_t ki = (size_t)(op.arg(0) < 0 ? -op.arg(0) : op.arg(0)) % pool.size();
				const std::string &k = pool[ki];
				long pos = -1;
				for (size_t i = 0; i < model.size(); i++)
					if (model[i].first == k)
						pos = (long)i;
				int rc;
				if ((ki + oi) % 3 == 1)
				{
					// the two-step form: find the entry, delete that entry
					struct lh_entry *de = LIB(lh_table_lookup_entry_w_hash(t, k.c_str(), lh_get_hash(t, k.c_str())));
					rc = de ? LIB(lh_table_delete_entry(t, de)) : -1;
					ctx.probe("L.delete_entry_two_step");
				}
				else
					rc = LIB(lh_table_delete(t, k.c_str()));
				if ((rc == 0) != (pos >= 0))
					ctx.fail("C06:delete-mismatch", "L op %zu: lh_table_delete('%s') returned %d, model %s the key", oi, printable(k, 20).c_str(), rc, pos >= 0 ? "has" : "lacks");
				if (pos >= 0)
				{
					expect_freed.push_back(k);
					model.erase(model.begin() + pos);
					deletes_since_growth++;
					cov += "|present";
				}
				else
					cov += "|absent";
			}
			else if (op.kind == "iterdel" || op.kind == "visitdel")
			{
				// lh_foreach_safe: delete the current entry while walking; the rest of the walk must be undisturbed
				int mod = 2 + (int)(op.arg(0) % 3), rem = (int)(op.arg(1) % mod);
				std::vector<std::string> seen;
				{
					LibScope ls;
					struct lh_entry *e, *tmp;
					int guard2 = 0;
					lh_foreach_safe(t, e, tmp)
					{
						std::string ek = (const char *)lh_entry_k(e);
						seen.push_back(ek);
						if ((intptr_t)lh_entry_v(e) % mod == rem)
							lh_table_delete_entry(t, e);
						if (guard2++ > 100000)
							break;
					}
				}
				std::vector<std::string> want_seen;
				for (auto &m : model)
					want_seen.push_back(m.first);
				if (seen != want_seen)
					ctx.fail("C06:delete-during-iteration-disturbs-iteration", "L op %zu: lh_foreach_safe with deletion of the current entry visited %zu entries, the table held %zu", oi, seen.size(),
					         want_seen.size());
				for (size_t i = 0; i < model.size();)
					if (model[i].second % mod == rem)
					{
						expect_freed.push_back(model[i].first);
						model.erase(model.begin() + (long)i);
						deletes_since_growth++;
					}
					else
						i++;
				if (!expect_freed.empty())
				{
					ctx.probe("L.delete_current_entry_in_foreach_safe");
					ctx.nontrivial = true;
				}
				cov += expect_freed.empty() ? "|none" : "|some";
			}
			else if (op.kind == "resize")
			{
				int ns = (int)op.arg(0);
				if (ns < 1)
					ns = 1;
				if (ns > 200)
					ns = 200;
				// (a size too small for the live entries is legal: the table grows again while it is refilled)
				if (ns >= 1)
				{
					arm_faults(op, ctx);
					int rc = LIB(lh_table_resize(t, ns));
					bool fired = g_alloc.fired > 0;
					tally_faults(ctx);
					disarm_faults();
					if (rc != 0 && !fired)
						ctx.fail("C06:spurious-failure", "L op %zu: lh_table_resize(%d) failed without an allocation failure", oi, ns);
					if (rc == 0)
					{
						cur_size_estimate = (size_t)ns;
						while (model.size() * 100 >= cur_size_estimate * 66)
							cur_size_estimate *= 2;
						deletes_since_growth = 0;
						ctx.probe("L.explicit_resize");
						ctx.nontrivial = true;
						cov += "|ok";
					}
					else
					{
						ctx.probe("L.alloc_failure_leaves_map_unchanged");
						cov += "|alloc-failed";
					}
				}
			}
			std::sort(freed.begin(), freed.end());
			std::sort(expect_freed.begin(), expect_freed.end());
			if (freed != expect_freed)
				ctx.fail("C06:release-mismatch", "L op %zu (%s): %zu entry free callback(s), the model expects %zu", oi, op.kind.c_str(), freed.size(), expect_freed.size());
			cov += std::string("|h") + std::to_string(g_hmode) + (tsize <= 2 ? "|tiny" : "|small");
			ctx.cover(cov);
			ctx.log("op %zu %s -> n=%zu", oi, cov.c_str(), model.size());
			verify(oi, op.kind.c_str());
		}
		freed.clear();
		LIBV(lh_table_free(t));
		if (freed.size() != model.size())
			ctx.fail("C06:teardown-release-mismatch", "lh_table_free released %zu entries, the table held %zu", freed.size(), model.size());
		if (!g_alloc.live.empty())
			ctx.fail("C06:leak@" + g_alloc.first_live_site(), "%zu allocation(s) remain after lh_table_free:%s", g_alloc.live.size(), g_alloc.describe_live().c_str());
	}

	bool process_dirty = false; // the default key hash may already have drawn its seed in this process

	void run(const Plan &p, RunCtx &ctx) override
	{
		// "any hash seed" includes the draws the seed source can make: the value -1 is json-c's "not drawn yet" marker and must be
		// redrawn.  The seed is drawn once per process, so such a run needs a virgin process whose seed source starts with -1.
		int minus_one = (int)p.c("first_draws_minus_one");
		bool then_zero = p.c("first_real_draw_zero") != 0; // 0 is an ordinary seed value (and the natural "unset" marker of a careless rewrite)
		if (minus_one > 0 || then_zero)
		{
			if (process_dirty)
			{
				Outcome o;
				if (!execute_plan_fresh_process(*this, p, o))
					ctx.fail("C06:harness", "could not start a fresh process");
				adopt_outcome(ctx, o);
				ctx.check();
				return;
			}
			g_seed.queue.assign((size_t)minus_one, 0xffffffffu);
			if (then_zero)
				g_seed.queue.push_back(0);
			g_seed.pos = 0;
			ctx.probe("seed_source_returned_minus_one_first");
		}
		process_dirty = true;
		struct QueueGuard
		{
			~QueueGuard()
			{
				g_seed.queue.clear();
				g_seed.pos = 0;
			}
		} queue_guard;
		if (p.c("layer") == 1)
			run_table_layer(p, ctx);
		else
			run_object_layer(p, ctx);
	}
};
std::vector<int64_t> *C06::g_destroyed = nullptr;
std::vector<std::string> *C06::g_freed_keys = nullptr;
uint64_t C06::g_hseed = 0;
int C06::g_hmode = 0;
REGISTER_PROPERTY(C06)
} // namespace
