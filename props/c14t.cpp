// C14 (multi-thread configuration, binary jsim-thr) — a thread that is *inside* the parser or a serializer must not disturb
// the numeric locale other threads see, and each thread's own results are locale independent.
// 2..3 caller threads, each inheriting the global locale or installing its own thread locale (C / vf_COMMA); the seeded scheduler
// interleaves them at every instrumented memory access of json-c, so a thread is regularly parked in the middle of
// json_tokener_parse_ex while the others format numbers with printf and parse/serialise themselves.
#include "common.h"
#ifdef JSIM_THR
#include "../sim/simtsan.h"
#include "tok_util.h"
#include <clocale>
#include <locale.h>

namespace
{
struct C14T : Property
{
	const char *id() const override { return "C14T"; }
	const char *report_id() const override { return "C14"; }
	const char *level() const override { return "exploration"; }
	const char *variant() const override { return "thr"; }
	uint64_t runs(Tier t) const override { return t == QUICK ? 20000 : 600000; }
	std::string rule() const override
	{
		return "seeded runs: global locale C|vf_COMMA, 2-3 threads each with thread locale none|C|vf_COMMA, per-thread op lists of parse (non-integers, all outcome classes), "
		       "serialize and printf probes; seeded scheduler switching at every instrumented access of json-c (random and PCT policies). Non-trivial: a context switch happened and at "
		       "least one thread's effective decimal separator is a comma; distinct = distinct thread-id sequences over the yield points.";
	}
	std::vector<std::string> assumptions() const override
	{
		return {"interleaving is controlled at instrumented accesses of json-c code; glibc's locale functions run to completion between two such points",
		        "same synthesized comma locale as the single-thread batch"};
	}
	std::vector<std::string> probes() const override { return {"switch_while_other_thread_inside_parser", "thread_with_comma_locale", "global_comma_thread_inherits", "probe_checked"}; }
	std::map<std::string, int64_t> cfg_defaults() const override { return {{"pct", 0}}; }

	Plan generate(Rng &r, Tier, uint64_t) override
	{
		Plan p;
		p.cfg["global"] = (int64_t)r.below(2);
		int nt = (int)r.range(2, 3);
		p.cfg["threads"] = nt;
		p.cfg["sched_seed"] = (int64_t)(r.next() >> 8);
		p.cfg["pct"] = r.chance(1, 3) ? (int64_t)r.range(2, 4) : 0;
		p.cfg["p_other"] = (int64_t)r.pick(std::vector<int>{5, 30, 100, 300});
		for (int t = 0; t < nt; t++)
		{
			Op lo;
			lo.kind = "loc";
			lo.a = {t, (int64_t)r.below(3)};
			p.ops.push_back(lo);
			int n = (int)r.range(2, 8);
			for (int i = 0; i < n; i++)
			{
				Op o;
				switch (r.below(3))
				{
				case 0:
					o.kind = "parse";
					o.data = r.pick(std::vector<std::string>{"[1.5,2.25e1,-0.125]", "{\"a\":3.75}", "0.5", "[1.5,", "[1.5,,]", "[[[[1.5]]]]", "1.2.3", "{\"k\":[0.1,0.2,{\"z\":1e-3}]}"});
					o.a = {t, (int64_t)r.below(2), r.chance(1, 4) ? 2 : 32};
					break;
				case 1:
					o.kind = "ser";
					o.a = {t, (int64_t)r.range(-100000, 100000)};
					break;
				default: o.kind = "probe"; o.a = {t}; break;
				}
				p.ops.push_back(o);
			}
		}
		return p;
	}

	struct TState
	{
		int t;
		int locale_mode;                  // 0 inherit global, 1 C, 2 comma
		std::vector<const Op *> ops;
		std::vector<std::string> results; // one per parse/ser op
		std::string expect_probe;
		std::vector<std::string> errors;
		bool inside_lib = false;
	};
	static std::vector<TState> *g_ts;

	static std::string do_op(const Op &op)
	{
		if (op.kind == "parse")
		{
			std::string text = op.data;
			if (op.arg(1) & 1)
				text.push_back('\0');
			int depth = (int)op.arg(2, 32);
			struct json_tokener *tok = LIB(json_tokener_new_ex(depth < 1 ? 1 : depth));
			struct json_object *o = LIB(json_tokener_parse_ex(tok, text.data(), (int)text.size()));
			std::string r = "e" + std::to_string((int)json_tokener_get_error(tok)) + ";" + typed_dump(o);
			if (o)
				LIBV(json_object_put(o));
			LIBV(json_tokener_free(tok));
			return r;
		}
		if (op.kind == "ser")
		{
			struct json_object *a = LIB(json_object_new_array());
			LIB(json_object_array_add(a, json_object_new_double((double)op.arg(1) / 64.0)));
			LIB(json_object_array_add(a, json_object_new_double_s(2.5, "2.50")));
			LIB(json_object_array_add(a, json_object_new_double(1e21)));
			std::string r = LIB(json_object_to_json_string_ext(a, JSON_C_TO_STRING_PLAIN));
			LIBV(json_object_put(a));
			return r;
		}
		return "";
	}
	static void thread_main(void *argp)
	{
		TState &s = *(TState *)argp;
		locale_t mine = (locale_t)0;
		if (s.locale_mode)
		{
			mine = newlocale(LC_ALL_MASK, s.locale_mode == 2 ? "vf_COMMA" : "C", (locale_t)0);
			uselocale(mine);
		}
		for (const Op *op : s.ops)
		{
			char b[64];
			if (op->kind == "probe")
			{
				snprintf(b, sizeof b, "%.2f", 1.5);
				if (s.expect_probe != b)
					s.errors.push_back("C14:numeric-formatting-changed|thread " + std::to_string(s.t) + " printf gives '" + b + "', its locale says '" + s.expect_probe + "'");
				continue;
			}
			locale_t before = uselocale((locale_t)0);
			s.inside_lib = true;
			s.results.push_back(do_op(*op));
			s.inside_lib = false;
			if (uselocale((locale_t)0) != before)
				s.errors.push_back("C14:thread-locale-not-restored|thread " + std::to_string(s.t) + ": uselocale(NULL) differs after " + op->kind);
			snprintf(b, sizeof b, "%.2f", 1.5);
			if (s.expect_probe != b)
				s.errors.push_back("C14:numeric-formatting-changed|thread " + std::to_string(s.t) + " after " + op->kind + ": printf gives '" + b + "', expected '" + s.expect_probe + "'");
		}
		if (mine)
		{
			uselocale(LC_GLOBAL_LOCALE);
			freelocale(mine);
		}
	}

	void run(const Plan &p, RunCtx &ctx) override
	{
		int nt = (int)p.c("threads", 2);
		if (nt < 2)
			nt = 2;
		if (nt > 3)
			nt = 3;
		int glob = (int)(p.c("global") % 2);
		std::vector<TState> ts((size_t)nt);
		for (int t = 0; t < nt; t++)
			ts[(size_t)t].t = t;
		for (auto &op : p.ops)
		{
			int t = (int)((op.arg(0) < 0 ? -op.arg(0) : op.arg(0)) % nt);
			if (op.kind == "loc")
				ts[(size_t)t].locale_mode = (int)(op.arg(1) % 3);
			else
				ts[(size_t)t].ops.push_back(&op);
		}
		// reference: every thread's ops, single-threaded, C locale
		setlocale(LC_ALL, "C");
		uselocale(LC_GLOBAL_LOCALE);
		std::vector<std::vector<std::string>> ref((size_t)nt);
		for (int t = 0; t < nt; t++)
			for (const Op *op : ts[(size_t)t].ops)
				if (op->kind != "probe")
					ref[(size_t)t].push_back(do_op(*op));
		struct Restore
		{
			~Restore()
			{
				uselocale(LC_GLOBAL_LOCALE);
				setlocale(LC_ALL, "C");
			}
		} restore;
		if (glob && !setlocale(LC_ALL, "vf_COMMA"))
			ctx.fail("C14:harness-locale-missing", "setlocale(vf_COMMA) failed (LOCPATH=%s)", getenv("LOCPATH") ? getenv("LOCPATH") : "(unset)");
		bool any_comma = false;
		for (auto &s : ts)
		{
			bool comma = s.locale_mode == 2 || (s.locale_mode == 0 && glob);
			s.expect_probe = comma ? "1,50" : "1.50";
			any_comma = any_comma || comma;
			if (s.locale_mode == 2)
				ctx.probe("thread_with_comma_locale");
			if (s.locale_mode == 0 && glob)
				ctx.probe("global_comma_thread_inherits");
		}
		struct simthr_config cfg;
		memset(&cfg, 0, sizeof cfg);
		cfg.seed = (uint64_t)p.c("sched_seed", 1);
		cfg.switch_permille_atomic = 300;
		cfg.switch_permille_watched = 300;
		cfg.switch_permille_other = (int)p.c("p_other", 30);
		cfg.pct_depth = (int)p.c("pct", 0);
		cfg.expected_steps = 3000;
		g_ts = &ts;
		simthr_begin(&cfg);
		for (auto &s : ts)
			simthr_spawn(thread_main, &s);
		simthr_run();
		struct simthr_stats st;
		simthr_end(&st);
		g_ts = nullptr;
		ctx.count("steps.yield_points", st.yields);
		ctx.count("steps.context_switches", st.switches);
		ctx.log("global=%d threads=%d switches=%llu sched=%016llx", glob, nt, (unsigned long long)st.switches, (unsigned long long)st.sched_hash);
		char ih[40];
		snprintf(ih, sizeof ih, "il|%016llx", (unsigned long long)st.sched_hash);
		ctx.cover(ih);
		if (st.switches > 1)
			ctx.probe("switch_while_other_thread_inside_parser");
		if (st.switches > 0 && any_comma)
			ctx.nontrivial = true;
		for (auto &s : ts)
		{
			if (!s.errors.empty())
			{
				size_t bar = s.errors[0].find('|');
				ctx.fail(s.errors[0].substr(0, bar), "%s", s.errors[0].substr(bar + 1).c_str());
			}
			ctx.probe("probe_checked");
			const auto &r = ref[(size_t)s.t];
			for (size_t i = 0; i < r.size() && i < s.results.size(); i++)
				if (r[i] != s.results[i])
					ctx.fail("C14:result-depends-on-locale:threads", "thread %d (locale mode %d, global %s) op %zu gives %s ; single-threaded in the C locale: %s", s.t, s.locale_mode,
					         glob ? "vf_COMMA" : "C", i, s.results[i].substr(0, 200).c_str(), r[i].substr(0, 200).c_str());
		}
		for (int i = 0; i < st.nraces; i++)
		{
			bool jc = false;
			const char *f1 = sym_lookup((void *)((uintptr_t)st.races[i].pc_prev - 1), &jc), *f2 = sym_lookup((void *)((uintptr_t)st.races[i].pc_cur - 1), &jc);
			if (f1 && f2 && std::string(f1) == "lh_char_hash" && std::string(f2) == "lh_char_hash")
				continue;
			ctx.fail(std::string("C14:data-race@") + (f2 ? f2 : "?"), "threads working on their own documents conflict on json-c memory in %s / %s", f2 ? f2 : "?", f1 ? f1 : "?");
		}
		if (!g_alloc.live.empty())
			ctx.fail("C14:leak@" + g_alloc.first_live_site(), "%zu allocation(s) remain:%s", g_alloc.live.size(), g_alloc.describe_live().c_str());
	}
};
std::vector<C14T::TState> *C14T::g_ts = nullptr;
REGISTER_PROPERTY(C14T)
} // namespace
#endif
