// C04 — the parser is total and memory-safe on arbitrary bytes and reusable after reset.
// Simulated: a parser *session*: new(depth) / set_flags / feed(chunk) / feed as C string (len=-1) / feed with invalid
// length / reset / free, over arbitrary bytes.  "Crash" = a stream abandoned at an arbitrary chunk boundary followed by
// reset or free; "EOF" = final chunk with or without its NUL.
// Oracles: ASan/UBSan (crash class), outcome well-formedness after every call, end position within the given length,
// nothing left allocated after free, and reuse == fresh: everything that happens after a reset is mirrored on a
// brand-new parser with the same flags/depth and must give the identical outcome sequence.
#include "gen_json.h"
#include "tok_util.h"

namespace
{
struct C04 : Property
{
	const char *id() const override { return "C04"; }
	const char *level() const override { return "exploration"; }
	uint64_t runs(Tier t) const override { return t == QUICK ? 600000 : 12000000; }
	std::string rule() const override
	{
		return "seeded parser sessions (<=40 ops): new(depth 1..40)/set_flags/feed/feed-as-C-string/feed-with-bad-length/reset/free over random bytes, JSON-alphabet soup, "
		       "mutated generated texts, nesting far beyond the depth limit and tokens long enough to grow the print buffer, cut into chunks and abandoned at arbitrary "
		       "boundaries. A run is non-trivial if a reset/free hit a parser holding partial state (last outcome 'continue') or followed an error; distinct = distinct "
		       "sets of (event, outcome, lexical context at abandonment, depth class) keys.";
	}
	std::vector<std::string> assumptions() const override
	{
		return {"documented precondition respected: after a fatal error the parser is reset before it is fed again", "exact-size heap chunk buffers + ASan make reads outside the given bytes visible",
		        "live-allocation accounting by the allocator wrapper is exact for allocations made inside library calls"};
	}
	std::vector<std::string> probes() const override
	{
		return {"reset.with_pending_member_name", "reset.inside_nested_containers", "reset.inside_string", "reset.inside_number", "reset.after_error", "reset.after_success",
		        "free.with_partial_state", "error.depth_at_limit_1", "error.size_bad_length", "feed.c_string_mode", "feed.zero_length", "printbuf_growth.long_token",
		        "mirror.compared_calls", "outcome.success", "outcome.continue", "fault.alloc_inside_parse", "outcome.memory_error_then_reset", "parse_verbose.compared", "constructor.allocation_failure"};
	}
	std::map<std::string, int64_t> cfg_defaults() const override { return {}; }

	static std::string gen_bytes(Rng &r)
	{
		std::string s;
		switch (r.below(9))
		{
		case 0: s = rand_bytes(r, (size_t)r.range(0, 40)); break;
		case 1:
		{
			size_t n = (size_t)r.range(1, 60);
			static const char soup[] = "{}[]\",:\\/ue0123456789.-+ tfnTFN'*\n\0Ii";
			for (size_t i = 0; i < n; i++)
				s.push_back(soup[r.below(sizeof soup - 1)]);
			break;
		}
		case 2: // nesting far beyond any limit
		{
			size_t n = (size_t)r.range(1, 80);
			for (size_t i = 0; i < n; i++)
				s += r.chance(1, 2) ? "[" : "{\"k\":";
			if (r.chance(1, 2))
				s += "1";
			break;
		}
		case 3: // long tokens
		{
			size_t n = (size_t)r.pick(std::vector<int>{31, 32, 33, 63, 64, 65, 127, 128, 129, 700, 3000});
			// rarely a really large token (a reused parser keeps - or trims - the buffer it grew for it), followed later by medium ones
			if (r.chance(1, 60))
				n = (size_t)r.pick(std::vector<int>{70000, 140000, 9000, 20000});
			switch (r.below(4))
			{
			case 0: s = "\"" + std::string(n, 'x') + (r.chance(1, 2) ? "\"" : ""); break;
			case 1: s = std::string(n, '7') + (r.chance(1, 2) ? ".5e3" : ""); break;
			case 2: s = "/*" + std::string(n, 'c') + (r.chance(1, 2) ? "*/1" : ""); break;
			default: s = "{\"" + std::string(n, 'k') + "\":1}"; break;
			}
			break;
		}
		default:
		{
			GenOpts go;
			go.max_depth = (int)r.range(1, 6);
			go.max_width = (int)r.range(1, 4);
			go.size_budget = (int)r.range(10, 150);
			JsonGen g(r, go);
			s = g.stream(r.chance(1, 4) ? 3 : 1);
			if (r.chance(1, 2))
				s = mutate_text(r, s, (int)r.range(1, 6));
			break;
		}
		}
		if (r.chance(1, 2))
			s.push_back('\0');
		return s;
	}

	Plan generate(Rng &r, Tier, uint64_t index) override
	{
		Plan p;
		bool faulted = (index % 4) == 3; // a quarter of the sessions also meet allocation failures inside parse calls
		p.cfg["faulted"] = faulted;
		int nstreams = (int)r.range(1, 6);
		auto op0 = [&](const char *k, std::vector<int64_t> a = {}) {
			Op o;
			o.kind = k;
			o.a = a;
			p.ops.push_back(o);
		};
		static const int flagsets[8] = {0, 1, 2, 3, 0x10, 0x11, 0x12, 0x13};
		static const int depths[10] = {1, 1, 2, 3, 4, 8, 32, 32, 40, 5};
		op0("new", {depths[r.below(10)], (int64_t)r.below(2)});
		if (r.chance(2, 3))
			op0("flags", {flagsets[r.below(8)]});
		for (int s = 0; s < nstreams && p.ops.size() < 40; s++)
		{
			std::string bytes = gen_bytes(r);
			// cut into chunks; abandon the stream at a random boundary
			size_t pos = 0;
			int chunks = (int)r.range(1, 5);
			size_t upto = r.chance(1, 3) ? (size_t)r.below(bytes.size() + 1) : bytes.size();
			for (int c = 0; c < chunks && pos <= upto; c++)
			{
				size_t len = (c == chunks - 1) ? upto - pos : (size_t)r.below(upto - pos + 1);
				Op o;
				o.kind = r.chance(1, 8) ? "feedz" : "feed";
				o.data = bytes.substr(pos, len);
				if (faulted && r.chance(1, 3))
				{
					Fault f;
					f.kind = "alloc";
					f.a = {(int64_t)r.below(8)};
					o.faults.push_back(f);
				}
				p.ops.push_back(o);
				pos += len;
				if (r.chance(1, 20))
					op0("badlen", {-(int64_t)r.range(2, 1000)});
				if (r.chance(1, 25))
				{
					Op pv;
					pv.kind = "pv";
					pv.data = bytes.substr(0, bytes.find('\0'));
					pv.a = {(int64_t)r.below(2)};
					p.ops.push_back(pv);
				}
			}
			switch (r.below(7))
			{
			case 0:
			case 1:
			case 2: op0("reset"); break;
			case 3:
				op0("free");
				op0("new", {depths[r.below(10)], (int64_t)r.below(2)});
				if (r.chance(1, 2))
					op0("flags", {flagsets[r.below(8)]});
				break;
			case 4: op0("flags", {flagsets[r.below(8)]}); break;
			default: break; // keep going on the same parser without reset
			}
		}
		return p;
	}

	struct Sess
	{
		struct json_tokener *tok = nullptr, *mirror = nullptr;
		int depth = 32, flags = 0;
		bool need_reset = false;       // last outcome was a fatal error
		int last_err = 0;              // last outcome (0 success, 1 continue, ...)
		std::string since_reset;       // bytes fed since the last reset/new (for the context statistics)
		bool had_call = false;
	};

	void ensure(Sess &s, RunCtx &ctx)
	{
		if (!s.tok)
		{
			s.tok = new_tok(s.depth, s.flags);
			if (!s.tok)
				ctx.fail("C04:tokener-new-failed", "json_tokener_new_ex(%d) returned NULL without an injected fault", s.depth);
			s.need_reset = false;
			s.last_err = 0;
			s.since_reset.clear();
			s.had_call = false;
		}
	}
	void drop_mirror(Sess &s)
	{
		if (s.mirror)
			LIBV(json_tokener_free(s.mirror));
		s.mirror = nullptr;
	}
	void abandon_stats(Sess &s, RunCtx &ctx, const char *how)
	{
		if (!s.had_call)
			return;
		std::string where = "-";
		if (s.last_err == json_tokener_continue)
		{
			std::string tail = s.since_reset.size() > 4000 ? s.since_reset.substr(s.since_reset.size() - 4000) : s.since_reset;
			LexCtx lx(tail);
			where = lx.at[tail.size()];
			ctx.nontrivial = true;
			if (std::string(how) == "free")
				ctx.probe("free.with_partial_state");
			if (where.find("name") == 0)
				ctx.probe("reset.with_pending_member_name");
			if (where.find("|d0") == std::string::npos)
				ctx.probe("reset.inside_nested_containers");
			if (where.find("string") == 0)
				ctx.probe("reset.inside_string");
			if (where.find("number") == 0)
				ctx.probe("reset.inside_number");
		}
		else if (s.last_err == json_tokener_success)
			ctx.probe("reset.after_success");
		else
		{
			ctx.probe("reset.after_error");
			ctx.nontrivial = true;
		}
		ctx.cover(std::string(how) + "|after-" + std::to_string(s.last_err) + "|" + where + "|D" + (s.depth == 1 ? "1" : s.depth < 8 ? "small" : "big"));
	}
	void do_reset(Sess &s, RunCtx &ctx)
	{
		abandon_stats(s, ctx, "reset");
		LIBV(json_tokener_reset(s.tok));
		s.need_reset = false;
		s.since_reset.clear();
		s.had_call = false;
		// from now on a brand-new parser must behave identically
		drop_mirror(s);
		s.mirror = new_tok(s.depth, s.flags);
		if (!s.mirror)
			ctx.fail("C04:tokener-new-failed", "json_tokener_new_ex(%d) returned NULL without an injected fault", s.depth);
		if (json_tokener_get_error(s.tok) != json_tokener_success)
			ctx.fail("C04:reset-keeps-error", "json_tokener_get_error after reset = %d", (int)json_tokener_get_error(s.tok));
	}

	void check_outcome(RunCtx &ctx, const ParseResult &r, long len, const char *what, bool fault_fired = false)
	{
		if (r.err < 0 || r.err > (int)json_tokener_error_memory)
			ctx.fail("C04:undefined-error-code", "%s: error code %d is not an enumerator", what, r.err);
		if (r.has_value && r.err != json_tokener_success)
			ctx.fail("C04:value-with-error", "%s: a value was returned together with status '%s'", what, json_tokener_error_desc((enum json_tokener_error)r.err));
		if (len >= 0 && r.end > (size_t)len)
			ctx.fail("C04:end-beyond-length", "%s: parse end %zu exceeds the %ld bytes given", what, r.end, len);
		if (r.err == json_tokener_error_memory && !fault_fired)
			ctx.fail("C04:spurious-memory-error", "%s: out-of-memory status without an injected allocation failure", what);
	}

	void run(const Plan &p, RunCtx &ctx) override
	{
		Sess s;
		for (size_t oi = 0; oi < p.ops.size(); oi++)
		{
			const Op &op = p.ops[oi];
			if (op.kind == "new")
			{
				if (s.tok)
				{
					abandon_stats(s, ctx, "free");
					LIBV(json_tokener_free(s.tok));
					s.tok = nullptr;
				}
				drop_mirror(s);
				s.depth = (int)op.arg(0, 32);
				if (s.depth < 1)
					s.depth = 1;
				if (s.depth > 64)
					s.depth = 64;
				s.flags = 0;
				// the constructor itself under every single allocation failure (its own failure paths must release what they hold)
				if (p.c("faulted") && (op.arg(1) & 1))
				{
					size_t live_before = g_alloc.live.size();
					for (long k = 0; k < 6; k++)
					{
						g_alloc.begin_op();
						g_alloc.fail_at = {k};
						struct json_tokener *t = LIB(json_tokener_new_ex(s.depth));
						bool fired = g_alloc.fired > 0;
						g_alloc.fail_at.clear();
						if (t)
							LIBV(json_tokener_free(t));
						else
						{
							// what a caller does with the result of a failed constructor: both calls accept NULL
							LIBV(json_tokener_reset(nullptr));
							LIBV(json_tokener_free(nullptr));
						}
						if (g_alloc.live.size() != live_before)
							ctx.fail("C04:leak@" + g_alloc.first_live_site(), "json_tokener_new_ex(%d) with allocation #%ld failing %s and leaves %zu allocation(s) behind", s.depth, k,
							         t ? "succeeded" : "returned NULL", g_alloc.live.size() - live_before);
						if (!fired)
							break;
						ctx.probe("constructor.allocation_failure");
					}
					g_alloc.begin_op();
				}
				ensure(s, ctx);
				// a second brand-new parser is fed the same chunks from the very beginning: two tokeners never influence each other
				// (nothing of the scanner state may live outside the tokener), and a new parser behaves like a new parser
				s.mirror = new_tok(s.depth, s.flags);
				ctx.log("op %zu new depth=%d", oi, s.depth);
			}
			else if (op.kind == "flags")
			{
				ensure(s, ctx);
				s.flags = (int)op.arg(0) & 0x13;
				LIBV(json_tokener_set_flags(s.tok, s.flags));
				if (s.mirror)
					LIBV(json_tokener_set_flags(s.mirror, s.flags));
				ctx.log("op %zu flags=0x%x", oi, s.flags);
			}
			else if (op.kind == "reset")
			{
				ensure(s, ctx);
				do_reset(s, ctx);
				ctx.log("op %zu reset", oi);
			}
			else if (op.kind == "free")
			{
				if (s.tok)
				{
					abandon_stats(s, ctx, "free");
					LIBV(json_tokener_free(s.tok));
					s.tok = nullptr;
				}
				drop_mirror(s);
				ctx.log("op %zu free", oi);
				if (!g_alloc.live.empty())
					ctx.fail("C04:leak@" + g_alloc.first_live_site(), "after json_tokener_free %zu allocation(s) made by the session remain:%s",
					         g_alloc.live.size(), g_alloc.describe_live().c_str());
			}
			else if (op.kind == "pv")
			{
				// the convenience entry points (own tokener, default depth, C string): same answer as parse_ex on the same bytes + NUL
				std::string z = op.data.substr(0, op.data.find('\0'));
				std::string zt = z + std::string(1, '\0');
				ExactBuf b(zt);
				enum json_tokener_error err = json_tokener_success;
				struct json_object *o = (op.arg(0) & 1) ? LIB(json_tokener_parse(b.p)) : LIB(json_tokener_parse_verbose(b.p, &err));
				ParseResult ref = oneshot(zt, 0, JSON_TOKENER_DEFAULT_DEPTH);
				std::string want = ref.err == json_tokener_success ? ref.dump : std::string("<none>");
				std::string got = o ? typed_dump(o) : ((op.arg(0) & 1) || err != json_tokener_success ? std::string("<none>") : std::string("null"));
				if (ref.err == json_tokener_success && !ref.has_value && !o)
					got = want; // JSON null: NULL with success
				if (o)
					LIBV(json_object_put(o));
				if (got != want)
					ctx.fail("C04:convenience-parse-differs", "json_tokener_parse%s(%s) gives %s, parse_ex on the same bytes gives %s (%s)", (op.arg(0) & 1) ? "" : "_verbose",
					         printable(z, 60).c_str(), got.substr(0, 100).c_str(), want.substr(0, 100).c_str(), json_tokener_error_desc((enum json_tokener_error)ref.err));
				if (!(op.arg(0) & 1) && (int)err != ref.err)
					ctx.fail("C04:convenience-parse-differs", "json_tokener_parse_verbose(%s) reports '%s', parse_ex reports '%s'", printable(z, 60).c_str(), json_tokener_error_desc(err),
					         json_tokener_error_desc((enum json_tokener_error)ref.err));
				ctx.probe("parse_verbose.compared");
				ctx.log("op %zu pv %zu bytes -> %s", oi, z.size(), got.substr(0, 60).c_str());
				ctx.cover(std::string("pv|") + (o ? "value" : "none"));
			}
			else if (op.kind == "feed" || op.kind == "feedz" || op.kind == "badlen")
			{
				ensure(s, ctx);
				if (s.need_reset)
					do_reset(s, ctx); // documented: not reused after a fatal error until reset
				std::string bytes = op.data;
				bool z = op.kind == "feedz";
				if (z)
				{
					size_t nul = bytes.find('\0');
					if (nul != std::string::npos)
						bytes.resize(nul);
					ctx.probe("feed.c_string_mode");
				}
				ParseResult got, mir;
				long len = z ? -1 : (long)bytes.size();
				if (op.kind == "badlen")
				{
					int bad = (int)op.arg(0, -2);
					if (bad >= -1)
						bad = -2;
					char dummy = 'x';
					struct json_object *o = LIB(json_tokener_parse_ex(s.tok, &dummy, bad));
					got.err = (int)json_tokener_get_error(s.tok);
					got.has_value = o != nullptr;
					got.end = json_tokener_get_parse_end(s.tok);
					got.dump = "<none>";
					if (o)
						LIBV(json_object_put(o));
					// one of the three outcomes: here it can only be "no value + error status" (json-c answers json_tokener_error_size)
					if (got.has_value || got.err == json_tokener_success || got.err == json_tokener_continue)
						ctx.fail("C04:bad-length-accepted", "parse_ex with len=%d gave status '%s'%s", bad, json_tokener_error_desc((enum json_tokener_error)got.err),
						         got.has_value ? " and a value" : "");
					ctx.probe("error.size_bad_length");
					if (s.mirror)
					{
						struct json_object *o2 = LIB(json_tokener_parse_ex(s.mirror, &dummy, bad));
						if (o2)
							LIBV(json_object_put(o2));
					}
					s.need_reset = true;
					s.last_err = got.err;
					s.had_call = true;
					ctx.log("op %zu badlen -> %d", oi, got.err);
					ctx.cover("badlen");
					continue;
				}
				if (bytes.empty())
					ctx.probe("feed.zero_length");
				if (bytes.size() > 64)
					ctx.probe("printbuf_growth.long_token");
				arm_faults(op, ctx);
				got = parse_call(s.tok, bytes, z);
				bool fired = g_alloc.fired > 0;
				tally_faults(ctx);
				disarm_faults();
				ctx.count("steps.chunk_deliveries");
				check_outcome(ctx, got, z ? (long)bytes.size() + 1 : len, "parse_ex", fired);
				if (fired)
				{
					ctx.probe("fault.alloc_inside_parse");
					if (got.err == json_tokener_error_memory || (!got.has_value && got.err != json_tokener_success && got.err != json_tokener_continue))
						ctx.probe("outcome.memory_error_then_reset");
				}
				s.since_reset += bytes;
				if (z)
					s.since_reset.push_back('\0');
				s.had_call = true;
				ctx.log("op %zu %s %zu bytes -> %s end=%zu %s", oi, op.kind.c_str(), bytes.size(), json_tokener_error_desc((enum json_tokener_error)got.err), got.end,
				        got.dump.substr(0, 80).c_str());
				if (s.mirror)
				{
					mir = parse_call(s.mirror, bytes, z);
					ctx.probe("mirror.compared_calls");
					bool failed_by_fault = fired && !got.has_value && got.err != json_tokener_success && got.err != json_tokener_continue;
					// an allocation failure may turn the call into a clean failure (the parser is then reset before its next use);
					// if the call survived the failure it must have done exactly what the unfaulted mirror did
					if (!(mir == got) && !failed_by_fault)
						ctx.fail("C04:reset-parser-differs-from-new", "after reset (depth=%d flags=0x%x) feeding %s: reset parser -> %s ; brand-new parser with the same history -> %s", s.depth,
						         s.flags, printable(bytes, 60).c_str(), got.str().c_str(), mir.str().c_str());
				}
				if (got.err == json_tokener_success)
					ctx.probe("outcome.success");
				else if (got.err == json_tokener_continue)
					ctx.probe("outcome.continue");
				else
				{
					s.need_reset = true;
					if (got.err == json_tokener_error_depth && s.depth == 1)
						ctx.probe("error.depth_at_limit_1");
				}
				ctx.cover("outcome-" + std::to_string(got.err) + "|f" + std::to_string(s.flags) + (z ? "|z" : ""));
				s.last_err = got.err;
			}
		}
		if (s.tok)
		{
			abandon_stats(s, ctx, "free");
			LIBV(json_tokener_free(s.tok));
		}
		drop_mirror(s);
		if (!g_alloc.live.empty())
			ctx.fail("C04:leak@" + g_alloc.first_live_site(), "after json_tokener_free %zu allocation(s) made by the session remain:%s", g_alloc.live.size(),
			         g_alloc.describe_live().c_str());
		// locale objects are resources the calls create too (glibc allocates them internally, so the allocator seam does not see
		// them).  One object kept alive would still be a legitimate cache; a number that grows with the calls is a leak.
		if (g_loc.live_created.size() > 1)
			ctx.fail("C04:leak@locale-objects", "after json_tokener_free %zu locale objects created inside parse calls of this session are still alive", g_loc.live_created.size());
	}
};
REGISTER_PROPERTY(C04)
} // namespace
