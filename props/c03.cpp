// C03 — incremental parsing is independent of how the input is split into calls.
// Simulated: one byte stream, one parser (flags, depth), and the *transport* cutting the stream into chunks delivered by
// successive json_tokener_parse_ex calls (exact-size heap buffers).  A run = one stream + a set of delivery schedules:
// every single cut position (sweep), seeded multi-cut partitions (with zero-length chunks), byte-at-a-time.
// Oracle (the property, inductively): while every previous call returned "continue", the result of call i equals the
// result of ONE call on the concatenation with a fresh parser: same status/error, same typed value, same end position
// counted from the start of the document.  After a success the same parser resumes at the reported end.
#include "gen_json.h"
#include "tok_util.h"
#include <algorithm>

namespace
{
struct C03 : Property
{
	const char *id() const override { return "C03"; }
	const char *level() const override { return "exploration"; }
	uint64_t runs(Tier t) const override { return t == QUICK ? 40000 : 1200000; }
	std::string rule() const override
	{
		return "per run: one generated or mutated stream (<=~260 bytes; all token kinds, escapes, surrogates, multi-byte UTF-8, comments, number "
		       "shapes, mixed-case literals, concatenated documents), one flag combination of STRICT/ALLOW_TRAILING/VALIDATE_UTF8, one depth limit, and a "
		       "set of chunk schedules: all single cuts, all pairs of cuts for streams of at most 24 bytes, seeded multi-cut partitions incl. zero-length chunks, byte-at-a-time. evaluations = runs (streams); "
		       "steps.schedules counts delivery schedules. A run is non-trivial if at least one cut landed inside a token/escape/comment or inside a container "
		       "and the parser answered 'continue' there; distinct = distinct sets of (lexical context of a resumed cut, flags, outcome) keys.";
	}
	std::vector<std::string> assumptions() const override
	{
		return {"the one-shot reference is json-c itself with a fresh parser (differential oracle; absolute correctness of the value is C01, not claimed here)",
		        "values compared by typed dump through the public API (NaN-safe), never json_object_equal",
		        "lexical context of a cut is estimated by the harness' own scanner and used for coverage statistics only"};
	}
	std::vector<std::string> probes() const override
	{
		return {"cut.inside_unicode_escape", "cut.between_surrogate_halves", "cut.after_exponent_e", "cut.after_minus", "cut.after_dot", "cut.inside_literal",
		        "cut.inside_block_comment", "cut.inside_line_comment", "cut.after_comment_slash", "cut.inside_member_name", "cut.inside_string", "cut.after_backslash",
		        "cut.inside_multibyte_char", "cut.at_depth_limit_minus_1", "resume.after_success_same_parser", "zero_length_chunk", "stream.multiple_documents",
		        "outcome.error_after_continue", "outcome.success_after_continue", "nul_terminated_last_chunk", "stream_oracle.applied"};
	}
	std::map<std::string, int64_t> cfg_defaults() const override { return {{"flags", 0}, {"depth", 32}}; }

	Plan generate(Rng &r, Tier, uint64_t) override
	{
		Plan p;
		static const int flagsets[8] = {0, 1, 2, 3, 0x10, 0x11, 0x12, 0x13};
		p.cfg["flags"] = flagsets[r.below(8)];
		static const int depths[8] = {1, 2, 3, 4, 5, 6, 32, 32};
		p.cfg["depth"] = depths[r.below(8)];
		GenOpts go;
		go.max_depth = (int)r.range(1, 5);
		go.max_width = (int)r.range(1, 5);
		go.weird = !r.chance(1, 4);
		go.non_ascii = r.chance(3, 4);
		go.size_budget = (int)r.range(10, 220);
		JsonGen g(r, go);
		std::string s = g.stream(r.chance(1, 3) ? 4 : 1);
		if (r.chance(1, 3))
			s = mutate_text(r, s, (int)r.range(1, 4));
		if (r.chance(3, 4))
			s.push_back('\0'); // terminator so that a trailing scalar can finish
		if (r.chance(1, 10))
			s += g.stream(1);
		if (s.size() > 300)
			s.resize(300);
		Op st;
		st.kind = "stream";
		st.data = s;
		p.ops.push_back(st);
		size_t n = s.size();
		// (a) every single cut position
		for (size_t k = 0; k <= n; k++)
		{
			Op o;
			o.kind = "sched";
			o.a = {(int64_t)k};
			p.ops.push_back(o);
		}
		// (b) seeded partitions, biased to include neighbouring cuts and zero-length chunks
		int nparts = (int)r.range(2, 8);
		for (int i = 0; i < nparts; i++)
		{
			Op o;
			o.kind = "sched";
			int cuts = (int)r.range(2, 9);
			for (int c = 0; c < cuts; c++)
			{
				int64_t k = (int64_t)r.below(n + 1);
				o.a.push_back(k);
				if (r.chance(1, 5))
					o.a.push_back(k); // zero-length chunk
				if (r.chance(1, 4))
					o.a.push_back(k + 1 <= (int64_t)n ? k + 1 : k);
			}
			p.ops.push_back(o);
		}
		// (b') every PAIR of cut positions for short streams (state that is only wrong after two resumptions inside one token)
		if (n <= 24)
			for (size_t i = 0; i <= n; i++)
				for (size_t j = i; j <= n; j++)
				{
					Op o;
					o.kind = "sched";
					o.a = {(int64_t)i, (int64_t)j};
					p.ops.push_back(o);
				}
		// (c) byte-at-a-time
		{
			Op o;
			o.kind = "bytewise";
			p.ops.push_back(o);
		}
		// (d) last chunk handed over as NUL-terminated string with len = -1
		if (r.chance(1, 2))
		{
			Op o;
			o.kind = "sched_z";
			o.a = {(int64_t)r.below(n + 1)};
			p.ops.push_back(o);
		}
		return p;
	}

	struct Env
	{
		const std::string *S;
		int flags, depth;
		std::map<std::pair<size_t, size_t>, ParseResult> cache; // (start,len) -> one-shot result
		LexCtx *lex;
	};
	const ParseResult &reference(Env &e, size_t start, size_t len, RunCtx &ctx)
	{
		auto key = std::make_pair(start, len);
		auto it = e.cache.find(key);
		if (it != e.cache.end())
			return it->second;
		ctx.count("steps.reference_parses");
		return e.cache[key] = oneshot(e.S->substr(start, len), e.flags, e.depth);
	}

	// what a caller streaming documents out of the byte stream ends up with: the values in order and the fatal error, if any
	struct StreamObs
	{
		std::vector<std::string> values;
		int terminal = -1;
		bool pending = false; // the input ended while the parser was asking for more
		// Equivalent for a caller?  Without errors: the same values.  When the stream ends in a fatal error the error may be noticed while
		// json-c looks at the byte after a complete value (UTF-8 validation, trailing garbage): delivered in one call that value is then
		// not handed out, delivered in two it is - by design.  So with errors on both sides one value of slack at the end is accepted;
		// an error on one side only is never equivalent.
		bool equivalent(const StreamObs &o0) const
		{
			// "unexpected end of data" is what json-c reports for a remainder that starts with nothing but white space, comments or the
			// terminator after an early success (e.g. "/*\0" delivered on its own).  The caller's stream ends there, whatever bytes follow the
			// NUL: what it got so far must be a prefix of what the other delivery yields.
			StreamObs me = *this, o = o0;
			bool me_eof = false, o_eof = false;
			if (me.terminal == json_tokener_error_parse_eof)
			{
				me.terminal = -1;
				me_eof = true;
			}
			if (o.terminal == json_tokener_error_parse_eof)
			{
				o.terminal = -1;
				o_eof = true;
			}
			auto is_prefix = [](const std::vector<std::string> &a, const std::vector<std::string> &b) {
				if (a.size() > b.size())
					return false;
				for (size_t i = 0; i < a.size(); i++)
					if (a[i] != b[i])
						return false;
				return true;
			};
			if ((me.terminal < 0) != (o.terminal < 0))
				return false; // a real (non end-of-data) error on one side only
			if (me_eof || o_eof)
			{
				if (me_eof && o_eof)
					return is_prefix(me.values, o.values) || is_prefix(o.values, me.values);
				return me_eof ? is_prefix(me.values, o.values) : is_prefix(o.values, me.values);
			}
			return me.equivalent_norm(o);
		}
		bool equivalent_norm(const StreamObs &o) const
		{
			if ((terminal < 0) != (o.terminal < 0))
				return false;
			// likewise a value can be held back while json-c is still inside an unfinished trailing comment / whitespace run: if the
			// input ends there ("continue" pending) one piece may have one value less than a delivery that was cut right after the value
			if (terminal < 0 && !pending && !o.pending)
				return values == o.values;
			const std::vector<std::string> &a = values.size() <= o.values.size() ? values : o.values, &b = values.size() <= o.values.size() ? o.values : values;
			if (b.size() - a.size() > 1)
				return false;
			for (size_t i = 0; i < a.size(); i++)
				if (a[i] != b[i])
					return false;
			return true;
		}
		std::string str() const
		{
			std::string s = "[";
			for (auto &v : values)
				s += (v.size() > 40 ? v.substr(0, 40) + ".." : v) + " ";
			return s + "] " + (terminal < 0 ? std::string("no error") : std::string("error '") + json_tokener_error_desc((enum json_tokener_error)terminal) + "'");
		}
	};

	StreamObs deliver(Env &e, std::vector<size_t> cuts, bool last_z, RunCtx &ctx, size_t sched_no)
	{
		StreamObs obs;
		const std::string &S = *e.S;
		size_t n = S.size();
		for (auto &c : cuts)
			c = c % (n + 1);
		std::sort(cuts.begin(), cuts.end());
		cuts.push_back(n);
		struct json_tokener *tok = new_tok(e.depth, e.flags);
		if (!tok)
			ctx.fail("C03:tokener-new-failed", "json_tokener_new_ex(%d) returned NULL", e.depth);
		size_t docstart = 0, cur = 0, ci = 0;
		bool prev_continue = false;
		int guard = 0;
		ctx.count("steps.schedules");
		while (true)
		{
			if (++guard > 2000)
			{
				ctx.count("n.delivery_guard_stops");
				break;
			}
			while (ci < cuts.size() && cuts[ci] < cur)
				ci++;
			size_t b = ci < cuts.size() ? cuts[ci] : n;
			if (ci < cuts.size())
				ci++; // consume this boundary (a duplicate boundary yields a zero-length chunk next time)
			std::string chunk = S.substr(cur, b - cur);
			bool zmode = last_z && b == n && chunk.find('\0') == chunk.size() - 1 && !chunk.empty();
			if (zmode)
				ctx.probe("nul_terminated_last_chunk");
			if (chunk.empty())
				ctx.probe("zero_length_chunk");
			ParseResult got = zmode ? parse_call(tok, chunk.substr(0, chunk.size() - 1), true) : parse_call(tok, chunk);
			ctx.count("steps.chunk_deliveries");
			// the same bytes, one call, fresh parser
			const ParseResult &ref = reference(e, docstart, b - docstart, ctx);
			size_t got_end_abs = (cur - docstart) + got.end;
			ctx.log("s%zu call [%zu,%zu) doc@%zu -> %s end=%zu | ref %s end=%zu", sched_no, cur, b, docstart, json_tokener_error_desc((enum json_tokener_error)got.err),
			        got_end_abs, json_tokener_error_desc((enum json_tokener_error)ref.err), ref.end);
			if (got.err != ref.err || got.has_value != ref.has_value)
			{
				LIBV(json_tokener_free(tok));
				ctx.fail("C03:status-mismatch", "stream %s flags=0x%x depth=%d: chunks ending at %zu (this chunk [%zu,%zu), document starts at %zu): incremental says '%s', one call on the same bytes says '%s'",
				         printable(S, 120).c_str(), e.flags, e.depth, b, cur, b, docstart, json_tokener_error_desc((enum json_tokener_error)got.err),
				         json_tokener_error_desc((enum json_tokener_error)ref.err));
			}
			if (got.dump != ref.dump)
			{
				LIBV(json_tokener_free(tok));
				ctx.fail("C03:value-mismatch", "stream %s flags=0x%x depth=%d chunk [%zu,%zu) doc@%zu: incremental value %s, one-shot value %s", printable(S, 120).c_str(), e.flags,
				         e.depth, cur, b, docstart, got.dump.substr(0, 160).c_str(), ref.dump.substr(0, 160).c_str());
			}
			if (got_end_abs != ref.end)
			{
				LIBV(json_tokener_free(tok));
				ctx.fail("C03:end-position-mismatch", "stream %s flags=0x%x depth=%d chunk [%zu,%zu) doc@%zu status '%s': incremental end %zu (from document start), one-shot end %zu",
				         printable(S, 120).c_str(), e.flags, e.depth, cur, b, docstart, json_tokener_error_desc((enum json_tokener_error)got.err), got_end_abs, ref.end);
			}
			if (prev_continue && got.err != json_tokener_continue)
				ctx.probe(got.err == json_tokener_success ? "outcome.success_after_continue" : "outcome.error_after_continue");
			if (got.err == json_tokener_continue)
			{
				// a cut landed here and the parser asked for more: record where
				const std::string &lc = e.lex->at[b];
				if (b < n)
				{
					ctx.cover("cut@" + lc + "|f" + std::to_string(e.flags));
					if (lc.rfind("top", 0) != 0)
						ctx.nontrivial = true;
					if (lc.find("unicode-digit") != std::string::npos)
						ctx.probe("cut.inside_unicode_escape");
					if (lc.find("after-high-surrogate") != std::string::npos || lc.find("second-of-pair") != std::string::npos)
						ctx.probe("cut.between_surrogate_halves");
					if (lc.find("number-after-e") != std::string::npos)
						ctx.probe("cut.after_exponent_e");
					if (lc.find("number-after-minus") != std::string::npos)
						ctx.probe("cut.after_minus");
					if (lc.find("number-after-dot") != std::string::npos)
						ctx.probe("cut.after_dot");
					if (lc.find("literal-") != std::string::npos)
						ctx.probe("cut.inside_literal");
					if (lc.find("comment-block") != std::string::npos)
						ctx.probe("cut.inside_block_comment");
					if (lc.find("comment-line") != std::string::npos)
						ctx.probe("cut.inside_line_comment");
					if (lc.find("comment-start") != std::string::npos)
						ctx.probe("cut.after_comment_slash");
					if (lc.find("name") == 0)
						ctx.probe("cut.inside_member_name");
					if (lc.find("string") == 0)
						ctx.probe("cut.inside_string");
					if (lc.find("escape") == 0)
						ctx.probe("cut.after_backslash");
					if (b > 0 && b < n && ((unsigned char)S[b] & 0xc0) == 0x80 && ((unsigned char)S[b - 1] & 0x80))
						ctx.probe("cut.inside_multibyte_char");
				}
				prev_continue = true;
				obs.pending = true;
				cur = b;
				if (b == n && ci >= cuts.size())
					break;
				continue;
			}
			prev_continue = false;
			obs.pending = false;
			if (got.err == json_tokener_success)
			{
				obs.values.push_back(got.dump);
				ctx.cover(std::string("success|f") + std::to_string(e.flags) + (docstart ? "|later-doc" : "|first-doc"));
				size_t newstart = cur + got.end;
				if (newstart == cur && chunk.empty())
				{
					// nothing consumed from an empty chunk: move on to the next boundary
					if (b == n)
						break;
					cur = b;
					docstart = cur;
					continue;
				}
				if (docstart)
					ctx.probe("stream.multiple_documents");
				docstart = newstart;
				cur = newstart;
				// resume on the same parser at the reported end: the rest of this chunk is handed over again
				if (cur < b)
				{
					ci--; // same boundary again
					ctx.probe("resume.after_success_same_parser");
				}
				if (cur >= n)
					break;
				continue;
			}
			// error: the property says nothing about what follows
			obs.terminal = got.err;
			ctx.cover("error-" + std::to_string(got.err) + "|f" + std::to_string(e.flags));
			break;
		}
		LIBV(json_tokener_free(tok));
		if (!g_alloc.live.empty())
			ctx.fail("C03:leak@" + g_alloc.first_live_site(), "after json_tokener_free %zu allocation(s) remain:%s", g_alloc.live.size(),
			         g_alloc.describe_live().c_str());
		return obs;
	}

	void run(const Plan &p, RunCtx &ctx) override
	{
		if (p.ops.empty() || p.ops[0].kind != "stream")
			return;
		const std::string &S = p.ops[0].data;
		LexCtx lex(S);
		Env e;
		e.S = &S;
		e.flags = (int)p.c("flags");
		e.depth = (int)p.c("depth", 32);
		if (e.depth < 1)
			e.depth = 1;
		e.lex = &lex;
		ctx.log("stream %zu bytes flags=0x%x depth=%d", S.size(), e.flags, e.depth);
		// Stream-level consequence of the property: the documents a caller obtains by resuming at the reported end positions do not
		// depend on the chunking.  Not asserted in strict mode without ALLOW_TRAILING_CHARS, where json-c by design rejects a value
		// only if the trailing bytes happen to arrive in the same call.
		// Nor with VALIDATE_UTF8: the validation state is per call by design (a chunk ending inside a multi-byte character is an error,
		// which the test suite pins), so there chunking legitimately matters.
		bool stream_oracle = !((e.flags & JSON_TOKENER_STRICT) && !(e.flags & JSON_TOKENER_ALLOW_TRAILING_CHARS)) && !(e.flags & JSON_TOKENER_VALIDATE_UTF8);
		StreamObs whole = deliver(e, {}, false, ctx, 0);
		// only streams that are clean when delivered in one piece: with trailing garbage json-c's answer (which value is still handed out,
		// which error code wins) legitimately depends on what arrives together, see DESIGN.md 5.1
		if (whole.terminal >= 0 && whole.terminal != json_tokener_error_parse_eof)
			stream_oracle = false;
		if (stream_oracle)
			ctx.probe("stream_oracle.applied");
		for (size_t i = 1; i < p.ops.size(); i++)
		{
			const Op &op = p.ops[i];
			std::vector<size_t> cuts;
			StreamObs got;
			if (op.kind == "sched" || op.kind == "sched_z")
			{
				for (auto v : op.a)
					cuts.push_back((size_t)(v < 0 ? -v : v));
				got = deliver(e, cuts, op.kind == "sched_z", ctx, i);
			}
			else if (op.kind == "bytewise")
			{
				for (size_t k = 1; k < S.size(); k++)
					cuts.push_back(k);
				got = deliver(e, cuts, false, ctx, i);
			}
			else
				continue;
			if (stream_oracle && !got.equivalent(whole))
			{
				std::string cs;
				for (auto c : cuts)
					cs += std::to_string(c % (S.size() + 1)) + " ";
				ctx.fail("C03:document-stream-depends-on-chunking", "stream %s flags=0x%x depth=%d: cut at [%s] the caller obtains %s ; delivered in one piece: %s", printable(S, 120).c_str(),
				         e.flags, e.depth, cs.c_str(), got.str().c_str(), whole.str().c_str());
			}
		}
		// depth probe
		if (e.depth > 1)
		{
			int d = 0, maxd = 0;
			for (char c : S)
			{
				if (c == '[' || c == '{')
					maxd = std::max(maxd, ++d);
				else if ((c == ']' || c == '}') && d > 0)
					d--;
			}
			if (maxd >= e.depth - 1)
				ctx.probe("cut.at_depth_limit_minus_1");
		}
	}
};
REGISTER_PROPERTY(C03)
} // namespace
