// C08 — one allocation failure gives a clean failure: no leak, crash or corruption.  (fault enumeration)
// A run = one workload: unfaulted set-up ops building the pre-existing trees + ONE operation under test.
// The workload is executed once unfaulted (counting the N allocations made inside the operation and recording its
// result), then re-executed from scratch for EVERY k < N with allocation k failing, plus a few seeded pairs (k1,k2).
// Oracle per faulted execution: the operation returns its unfaulted result or fails through its documented channel;
// never a sanitizer report; serialization returns the unfaulted text byte-for-byte or NULL; pre-existing trees are
// unchanged (typed dump) and still usable (the same operation retried without fault gives the unfaulted result);
// caller-owned arguments of a failed call are not consumed; after releasing everything no allocation remains.
#include "gen_json.h"
#include "tok_util.h"
#include <cerrno>
#include <unistd.h>
extern "C" {
#include "linkhash.h"
#include "arraylist.h"
}
#include <algorithm>

namespace
{
static const char *const kConstKeys[4] = {"ck0", "ck1", "constant-key-two", ""};
static void lh_free_key(struct lh_entry *e)
{
	HarnessScope hs;
	free(lh_entry_k(e));
}
static void al_free_elem(void *p)
{
	HarnessScope hs;
	free(p);
}

struct C08 : Property
{
	const char *id() const override { return "C08"; }
	const char *level() const override { return "fault_enumeration"; }
	uint64_t runs(Tier t) const override { return t == QUICK ? 40000 : 1500000; }
	bool exhaustive(Tier) const override { return false; }
	std::string rule() const override
	{
		return "per run: one generated workload = set-up (documents parsed from generated valid JSON, arrays/objects built to sit at growth/resize thresholds, strings "
		       "around the inline threshold, pre-serialized buffers) + one operation under test out of {parse one-shot / parse_ex / chunked parse_ex, 12 constructors, "
		       "object add/add_ex (new, existing, constant key), array add/insert/put/shrink, set_string(_len), deep_copy, serialize (7 flag sets, first use and cached "
		       "buffer, get_string on non-strings), json_pointer_set/setf/get/getf, json_patch_apply in place and copy_from, json_object_from_fd(_ex), json_tokener_new_ex, "
		       "json_c_set_serialization_double_format, lh_table_* and array_list_* sequences used directly}. Single allocation faults are enumerated exhaustively per workload (every k < N), double faults are sampled. "
		       "evaluations = workloads; steps.faulted_executions counts re-executions. A workload is non-trivial if N >= 1; distinct = distinct sets of "
		       "(operation kind, failing call-site chain, outcome) keys.";
	}
	std::vector<std::string> assumptions() const override
	{
		return {"exhaustive in the fault index per generated workload, sampled over workloads", "allocation call sites are named by frame-pointer walk + symbol table of the simulator binary",
		        "documented exception encoded: an in-place json_patch_apply that fails may have modified *base", "errno values are not part of the oracle"};
	}
	std::vector<std::string> probes() const override
	{
		return {"failed.parse.tokener_new", "failed.parse.printbuf_growth", "failed.parse.child_attach", "failed.object_add.key_copy", "failed.object_add.table_resize",
		        "failed.array.growth", "failed.set_string.buffer", "failed.deep_copy.midway", "failed.serialize.buffer_new", "failed.serialize.buffer_growth",
		        "failed.pointer.path_copy", "failed.patch.copy_from", "failed.from_fd.buffer", "failed.double_format.copy", "double_fault.both_fired",
		        "op_survived_fault_with_normal_result", "retry_after_failure_ok"};
	}
	std::map<std::string, int64_t> cfg_defaults() const override { return {{"pairs", 0}}; }

	// ------------------------------------------------------------------ generation
	static std::string valid_doc(Rng &r, int budget, int depth = 3, int width = 4)
	{
		GenOpts go;
		go.weird = false;
		go.non_ascii = r.chance(1, 2);
		go.max_depth = depth;
		go.max_width = width;
		go.size_budget = budget;
		JsonGen g(r, go);
		g.value(0);
		return g.out;
	}
	static std::string container_doc(Rng &r, bool object, int n)
	{
		std::string s = object ? "{" : "[";
		for (int i = 0; i < n; i++)
		{
			if (i)
				s += ",";
			if (object)
				s += "\"m" + std::to_string(i) + "\":";
			switch (r.below(5))
			{
			case 0: s += std::to_string(r.range(-50, 50)); break;
			case 1: s += "\"v" + std::to_string(i) + "\""; break;
			case 2: s += "1.5"; break;
			case 3: s += "[1,{\"x\":null}]"; break;
			default: s += "null"; break;
			}
		}
		return s + (object ? "}" : "]");
	}
	static Op mk(const char *k, std::vector<int64_t> a = {}, std::string d = "")
	{
		Op o;
		o.kind = k;
		o.a = a;
		o.data = d;
		return o;
	}
	Plan generate(Rng &r, Tier, uint64_t) override
	{
		Plan p;
		p.cfg["pairs"] = (int64_t)r.below(4);
		p.cfg["pair_seed"] = (int64_t)r.below(1000000);
		static const int thresholds[] = {0, 1, 9, 10, 11, 12, 20, 21, 22, 31, 32, 33, 42, 43, 64};
		static const int serflags[] = {0, 1, 2, 3, 2 | 8, 16, 1 | 2 | 32, 4};
		int n = thresholds[r.below(sizeof thresholds / sizeof *thresholds)];
		switch (r.below(19))
		{
		case 0: // parse
		case 1:
		{
			std::string text;
			switch (r.below(5))
			{
			case 0: text = container_doc(r, r.chance(1, 2), n); break;
			case 1: text = "\"" + std::string((size_t)r.pick(std::vector<int>{5, 30, 31, 32, 40, 200}), 's') + "\\u00e9\\ud83d\\ude00\""; break;
			case 2: text = "{\"" + std::string((size_t)r.pick(std::vector<int>{3, 31, 33, 70}), 'k') + "\":[1.25,-7,18446744073709551615,true,null,\"x\"]}"; break;
			default: text = valid_doc(r, (int)r.range(5, 160), (int)r.range(1, 5)); break;
			}
			if (r.chance(1, 6))
			{
				Rng r2(r.next());
				text = mutate_text(r2, text, 2);
			}
			text.push_back('\0');
			static const int fl[] = {0, 1, 2, 0x10};
			p.ops.push_back(mk("t_parse", {fl[r.below(4)], r.chance(1, 4) ? (int64_t)r.range(1, 6) : 32, (int64_t)r.below(3), (int64_t)r.below(1000)}, text));
			break;
		}
		case 2: // constructors
			p.ops.push_back(mk("t_ctor", {(int64_t)r.below(12), (int64_t)r.range(0, 70)}, rand_text(r, (size_t)r.pick(std::vector<int>{0, 1, 7, 8, 9, 40}))));
			break;
		case 3: // object add
		case 4:
		{
			if (r.chance(1, 3))
				p.ops.push_back(mk("s_doc", {}, container_doc(r, true, n) + std::string(1, '\0')));
			else
				p.ops.push_back(mk("s_obj", {n}));
			// key: new / existing / constant
			int64_t keymode = (int64_t)r.below(4);
			p.ops.push_back(mk("t_objadd", {0, keymode, (int64_t)r.below(5), (int64_t)r.below(64)}, "newkey" + std::to_string(r.below(3))));
			break;
		}
		case 5: // array ops
		case 6:
		{
			if (r.chance(1, 3))
				p.ops.push_back(mk("s_doc", {}, container_doc(r, false, n) + std::string(1, '\0')));
			else
				p.ops.push_back(mk("s_arr", {n, (int64_t)r.pick(std::vector<int>{0, 1, 32, 32, 5})}));
			int64_t aop = (int64_t)r.below(4);
			int64_t idx = r.chance(1, 2) ? n : (r.chance(1, 2) ? (int64_t)r.below((uint64_t)n + 1) : n + (int64_t)r.range(1, 40));
			if (r.chance(1, 30))
				idx = (int64_t)1 << 40; // capacity refusal
			p.ops.push_back(mk("t_arr", {0, aop, idx, (int64_t)r.below(5)}));
			break;
		}
		case 7: // set_string
		{
			static const int lens[] = {0, 1, 6, 7, 8, 9, 15, 16, 17, 40, 200};
			p.ops.push_back(mk("s_str", {}, rand_bytes(r, (size_t)lens[r.below(11)])));
			if (r.chance(1, 2)) // first move it to a heap buffer
				p.ops.push_back(mk("s_setstr", {0}, rand_bytes(r, (size_t)lens[r.below(11)])));
			p.ops.push_back(mk("t_setstr", {0, (int64_t)r.below(2)}, rand_bytes(r, (size_t)lens[r.below(11)])));
			break;
		}
		case 8: // deep copy
			p.ops.push_back(mk("s_doc", {}, (r.chance(1, 2) ? container_doc(r, r.chance(1, 2), n) : valid_doc(r, (int)r.range(5, 160), 4)) + std::string(1, '\0')));
			p.ops.push_back(mk("t_copy", {0}));
			break;
		case 9: // serialize
		case 10:
		{
			if (r.chance(1, 3))
			{
				// boundary sweep: a pad of every length shifts each kind of token (literals, numbers, keys, separators, colour escapes)
				// across the growth points of the print buffer, so that the growth caused by exactly THAT token is the one that fails
				std::string pad((size_t)r.range(0, 75), 'p');
				static const char *tails[] = {",true,false,null]", ",false,{\"k\":true,\"n\":null},1.5,-7]", ",null,[true,[false]],\"s\\n\"]", ",12345678,true,{\"key\":\"v\"}]"};
				p.ops.push_back(mk("s_doc", {}, "[\"" + pad + "\"" + tails[r.below(4)] + std::string(1, '\0')));
				static const int sweepflags[] = {0, 32, 2 | 32, 1 | 32, 2, 1 | 2 | 8 | 32, 4 | 32, 16};
				p.ops.push_back(mk("t_ser", {0, sweepflags[r.below(8)], (int64_t)r.below(3)}));
				break;
			}
			p.ops.push_back(mk("s_doc", {}, (r.chance(1, 2) ? container_doc(r, r.chance(1, 2), n) : valid_doc(r, (int)r.range(5, 200), 4)) + std::string(1, '\0')));
			if (r.chance(1, 2))
				p.ops.push_back(mk("s_ser", {0, serflags[r.below(8)]}));
			p.ops.push_back(mk("t_ser", {0, serflags[r.below(8)], (int64_t)r.below(3)}));
			break;
		}
		case 11: // pointer set / get
		{
			p.ops.push_back(mk("s_doc", {}, std::string("{\"a\":{\"b\":[1,2,{\"c\":3}],\"~t/\":5},\"arr\":[10,20],\"") + std::string((size_t)r.range(1, 40), 'q') + "\":1}" + std::string(1, '\0')));
			static const char *paths[] = {"/a/b/0", "/a/b/2/c", "/a/b/-", "/a/new", "/arr/1", "/arr/2", "/arr/7", "/new", "", "/a/~0t~1", "/a/b/2/d", "/nope/x", "/a/b/x", "/arr/-"};
			p.ops.push_back(mk(r.chance(1, 2) ? "t_ptrset" : "t_ptrget", {0, (int64_t)r.below(2), (int64_t)r.below(5)}, paths[r.below(14)]));
			break;
		}
		case 12: // patch
		{
			p.ops.push_back(mk("s_doc", {}, std::string("{\"foo\":[\"bar\",\"baz\"],\"o\":{\"x\":1,\"y\":{\"z\":[1,2,3]}},\"n\":null}") + std::string(1, '\0')));
			static const char *patches[] = {
			    "[{\"op\":\"add\",\"path\":\"/foo/1\",\"value\":\"qux\"}]",
			    "[{\"op\":\"add\",\"path\":\"/o/new\",\"value\":{\"deep\":[1,2,{\"k\":\"v\"}]}}]",
			    "[{\"op\":\"remove\",\"path\":\"/foo/0\"},{\"op\":\"add\",\"path\":\"/foo/-\",\"value\":[1,2]}]",
			    "[{\"op\":\"replace\",\"path\":\"/o/y\",\"value\":42},{\"op\":\"test\",\"path\":\"/o/y\",\"value\":42}]",
			    "[{\"op\":\"move\",\"from\":\"/o/y\",\"path\":\"/foo/1\"}]",
			    "[{\"op\":\"copy\",\"from\":\"/o\",\"path\":\"/c2\"},{\"op\":\"copy\",\"from\":\"/foo/0\",\"path\":\"/foo/-\"}]", // (not \"/o2\": json-c refuses any path that has 'from' as a string prefix)
			    "[{\"op\":\"move\",\"from\":\"/foo/0\",\"path\":\"/foo/1\"},{\"op\":\"add\",\"path\":\"/a/b\",\"value\":1}]",
			    "[{\"op\":\"add\",\"path\":\"\",\"value\":{\"whole\":\"new\"}}]",
			    "[{\"op\":\"test\",\"path\":\"/foo/1\",\"value\":\"nope\"}]",
			    "[{\"op\":\"add\",\"path\":\"/k1\",\"value\":1},{\"op\":\"add\",\"path\":\"/k2\",\"value\":2},{\"op\":\"add\",\"path\":\"/k3\",\"value\":3},{\"op\":\"remove\",\"path\":\"/k2\"}]",
			    "[{\"op\":\"copy\",\"from\":\"/o/y\",\"path\":\"/foo/9\"}]",
			    "[{\"op\":\"move\",\"from\":\"/o/y\",\"path\":\"/n/z\"}]",
			    "[{\"op\":\"copy\",\"from\":\"/foo\",\"path\":\"/o/y/z/1\"},{\"op\":\"move\",\"from\":\"/n\",\"path\":\"/o/m\"}]",
			    // refused operations: replace / remove / test of something that does not exist
			    "[{\"op\":\"replace\",\"path\":\"/b\",\"value\":2}]",
			    "[{\"op\":\"replace\",\"path\":\"/o/nope\",\"value\":[1,2]}]",
			    "[{\"op\":\"replace\",\"path\":\"/foo/2\",\"value\":40}]",
			    "[{\"op\":\"remove\",\"path\":\"/o/nope\"},{\"op\":\"add\",\"path\":\"/z\",\"value\":1}]",
			    "[{\"op\":\"test\",\"path\":\"/o/nope\",\"value\":1}]"};
			p.ops.push_back(mk("s_doc", {}, std::string(patches[r.below(18)]) + std::string(1, '\0')));
			p.ops.push_back(mk("t_patch", {0, 1, (int64_t)r.below(2)}));
			break;
		}
		case 13: // from_fd
		{
			std::string text = r.chance(1, 2) ? container_doc(r, r.chance(1, 2), n) : valid_doc(r, (int)r.range(5, 160), 4);
			if (r.chance(1, 4))
				text += std::string((size_t)r.range(4000, 9000), ' ');
			p.ops.push_back(mk("t_fromfd", {r.chance(1, 3) ? (int64_t)r.range(1, 6) : -1}, text));
			break;
		}
		case 14: p.ops.push_back(mk("t_toknew", {(int64_t)r.pick(std::vector<int>{1, 2, 32, 100})})); break;
		case 18: // serialization delivered to a descriptor
			p.ops.push_back(mk("s_doc", {}, (r.chance(1, 2) ? container_doc(r, r.chance(1, 2), n) : valid_doc(r, (int)r.range(5, 160), 4)) + std::string(1, '\0')));
			p.ops.push_back(mk("t_tofd", {0, serflags[r.below(8)], (int64_t)r.below(3)}));
			break;
		case 16: // the hash table entry points directly
			p.ops.push_back(mk("t_lh", {(int64_t)r.pick(std::vector<int>{1, 2, 3, 8, 16}), (int64_t)r.range(1, 30), (int64_t)r.below(1000)}));
			break;
		case 17: // the array list entry points directly
			p.ops.push_back(mk("t_al", {(int64_t)r.pick(std::vector<int>{0, 1, 4, 32}), (int64_t)r.range(1, 40), (int64_t)r.below(1000)}));
			break;
		default: // double format
			if (r.chance(1, 2))
				p.ops.push_back(mk("s_fmt", {(int64_t)r.below(2)}, "%.3f"));
			p.ops.push_back(mk("s_doc", {}, std::string("[1.5,2.25,{\"d\":0.1}]") + std::string(1, '\0')));
			p.ops.push_back(mk("s_dbl", {(int64_t)r.below(1000)}));
			p.ops.push_back(mk("t_fmt", {(int64_t)r.below(2), (int64_t)r.below(2)}, r.chance(1, 3) ? "" : "%.2f"));
			break;
		}
		return p;
	}

	// ------------------------------------------------------------------ execution of one workload
	struct Exec
	{
		bool ran = false;      // the operation under test was applicable
		bool failed = false;   // it reported failure through its channel
		std::string result;    // observable result (dump / text / rc)
		std::string after;     // dump of the mutated pre-existing tree after the op (if it mutates one)
		long nalloc = 0, fired = 0;
		std::vector<std::string> sites;
		std::string kind;
		std::vector<std::string> slots_after; // dumps of all pre-existing trees after the op
	};

	static struct json_object *make_value(int kind)
	{
		switch (kind % 5)
		{
		case 0: return LIB(json_object_new_int64(4242));
		case 1: return LIB(json_object_new_string("a value string that does not fit inline storage"));
		case 2: return nullptr;
		case 3:
		{
			struct json_object *a = LIB(json_object_new_array());
			LIB(json_object_array_add(a, json_object_new_int(1)));
			LIB(json_object_array_add(a, json_object_new_string("two")));
			return a;
		}
		default: return LIB(json_object_new_double_s(2.5, "2.50"));
		}
	}

	[[noreturn]] void bad(RunCtx &ctx, const std::string &what, const Exec &e, const std::vector<long> &fails, size_t test_index, const char *fmt, ...)
	    __attribute__((format(printf, 7, 8)))
	{
		char buf[1500];
		va_list ap;
		va_start(ap, fmt);
		vsnprintf(buf, sizeof buf, fmt, ap);
		va_end(ap);
		std::string site = e.sites.empty() ? std::string("no-fault") : e.sites[0];
		std::string fs;
		for (auto k : fails)
			fs += (fs.empty() ? "" : ",") + std::to_string(k);
		ctx.refine_op = (int)test_index;
		ctx.refine_faults.clear();
		for (auto k : fails)
		{
			Fault f;
			f.kind = "alloc";
			f.a = {k};
			ctx.refine_faults.push_back(f);
		}
		ctx.fail("C08:" + what + "@" + site, "%s with allocation #%s failing (at %s): %s", e.kind.c_str(), fs.c_str(), site.c_str(), buf);
	}

	// Executes the whole workload with the given allocation indices failing inside the operation under test.
	// `base` = result of the unfaulted execution (nullptr while computing it).
	Exec exec(const Plan &p, const std::vector<long> &fails, const Exec *base, RunCtx &ctx)
	{
		Exec e;
		std::vector<struct json_object *> slots;
		std::vector<std::string> before;
		bool fmt_touched = false;
		size_t ti = 0;
		// process-global serialization format must not leak from one execution into the next
		LIB(json_c_set_serialization_double_format(nullptr, JSON_C_OPTION_GLOBAL));
		LIB(json_c_set_serialization_double_format(nullptr, JSON_C_OPTION_THREAD));
		const Op *test = nullptr;
		// ---- set-up (unfaulted)
		for (size_t i = 0; i < p.ops.size(); i++)
		{
			const Op &op = p.ops[i];
			if (op.kind.rfind("t_", 0) == 0)
			{
				if (!test)
				{
					test = &op;
					ti = i;
				}
				continue;
			}
			if (test)
				continue; // set-up ops after the operation under test are ignored
			if (op.kind == "s_doc")
			{
				std::string t = op.data;
				if (t.empty() || t.back() != '\0')
					t.push_back('\0');
				struct json_tokener *tok = new_tok(32, 0);
				ExactBuf b(t);
				struct json_object *o = LIB(json_tokener_parse_ex(tok, b.p, (int)t.size()));
				LIBV(json_tokener_free(tok));
				slots.push_back(o); // may be NULL (json null or unparsable after shrinking): a NULL slot makes dependent ops inapplicable
			}
			else if (op.kind == "s_obj")
			{
				struct json_object *o = LIB(json_object_new_object());
				for (int64_t k = 0; k < op.arg(0) && k < 200; k++)
				{
					std::string key = "m" + std::to_string(k);
					LIB(json_object_object_add(o, key.c_str(), json_object_new_int64(k)));
				}
				slots.push_back(o);
			}
			else if (op.kind == "s_arr")
			{
				int cap = (int)op.arg(1, 32);
				struct json_object *o = LIB(json_object_new_array_ext(cap < 0 ? 0 : cap > 1000 ? 1000 : cap));
				for (int64_t k = 0; k < op.arg(0) && k < 200; k++)
					LIB(json_object_array_add(o, json_object_new_int64(k)));
				slots.push_back(o);
			}
			else if (op.kind == "s_dbl")
			{
				// doubles made through the API (parsed ones replay their source text, so a double format never shows on them)
				if (!slots.empty() && slots[0] && json_object_get_type(slots[0]) == json_type_array)
					for (int64_t k = 0; k < 3; k++)
						LIB(json_object_array_add(slots[0], json_object_new_double((double)(op.arg(0) % 1000 + 1) / 8.0 + (double)k)));
			}
			else if (op.kind == "s_str")
				slots.push_back(LIB(json_object_new_string_len(op.data.data(), (int)op.data.size())));
			else if (op.kind == "s_setstr")
			{
				if (!slots.empty() && slots[(size_t)op.arg(0) % slots.size()] && json_object_get_type(slots[(size_t)op.arg(0) % slots.size()]) == json_type_string)
				{
					ExactBuf b(op.data);
					LIB(json_object_set_string_len(slots[(size_t)op.arg(0) % slots.size()], b.p, (int)op.data.size()));
				}
			}
			else if (op.kind == "s_ser")
			{
				if (!slots.empty() && slots[(size_t)op.arg(0) % slots.size()])
					LIB(json_object_to_json_string_ext(slots[(size_t)op.arg(0) % slots.size()], (int)op.arg(1)));
			}
			else if (op.kind == "s_fmt")
			{
				std::string f = op.data.empty() ? "%.3f" : op.data;
				if (f.find('%') != std::string::npos && f.find('f') != std::string::npos && f.size() < 10)
				{
					LIB(json_c_set_serialization_double_format(f.c_str(), op.arg(0) ? JSON_C_OPTION_THREAD : JSON_C_OPTION_GLOBAL));
					fmt_touched = true;
				}
			}
		}
		for (auto *s : slots)
			before.push_back(typed_dump(s));
		auto slot = [&](int64_t i) -> struct json_object *& { return slots[(size_t)(i < 0 ? -i : i) % slots.size()]; };
		auto slot_index = [&](int64_t i) { return (size_t)(i < 0 ? -i : i) % slots.size(); };
		auto arm = [&]() {
			g_alloc.begin_op();
			g_alloc.fail_at = fails;
		};
		auto disarm = [&]() {
			e.nalloc = g_alloc.op_count;
			e.fired = g_alloc.fired;
			e.sites = g_alloc.fail_sites;
			g_alloc.fail_at.clear();
			if (e.fired)
				ctx.count("fault.alloc.fired", (uint64_t)e.fired);
		};
		int mutated_slot = -1;           // slot the op mutates in place
		bool mutation_may_be_partial = false; // documented exception (in-place patch)
		std::vector<struct json_object *> extra; // results / arguments to release at the end
		if (test)
		{
			const Op &op = *test;
			e.kind = op.kind;
			// ---------------------------------------------------------------- parse
			if (op.kind == "t_parse")
			{
				int flags = (int)op.arg(0) & 0x13, depth = (int)op.arg(1, 32), mode = (int)(op.arg(2) % 3);
				if (depth < 1)
					depth = 1;
				if (depth > 64)
					depth = 64;
				std::string text = op.data;
				if (text.empty() || text.find('\0') == std::string::npos)
					text.push_back('\0');
				e.ran = true;
				e.kind += mode == 0 ? ":parse_verbose" : mode == 1 ? ":parse_ex" : ":parse_ex-chunked";
				if (mode == 0)
				{
					std::string z = text.substr(0, text.find('\0') + 1);
					ExactBuf b(z);
					enum json_tokener_error err = json_tokener_success;
					arm();
					struct json_object *o = LIB(json_tokener_parse_verbose(b.p, &err));
					disarm();
					// documented channel: no value + a fatal error status (json_tokener_error_memory, or whichever status the
					// single exit path finally reports; the status value itself is not part of this property)
					e.failed = (err == json_tokener_error_memory) || (g_alloc.fired > 0 && !o && err != json_tokener_success && err != json_tokener_continue);
					if (e.failed && o)
						bad(ctx, "value-with-memory-error", e, fails, ti, "json_tokener_parse_verbose returned a value together with json_tokener_error_memory");
					if (o && err != json_tokener_success)
						bad(ctx, "wrong-result", e, fails, ti, "json_tokener_parse_verbose returned a value with error %d", (int)err);
					e.result = "err=" + std::to_string((int)err) + ";" + typed_dump(o);
					if (o)
						LIBV(json_object_put(o));
				}
				else
				{
					struct json_tokener *tok = new_tok(depth, flags);
					// chunk schedule derived from the op argument
					std::vector<size_t> cuts;
					if (mode == 2)
					{
						Rng cr((uint64_t)op.arg(3) + 77);
						int nc = (int)cr.range(1, 4);
						for (int c = 0; c < nc; c++)
							cuts.push_back((size_t)cr.below(text.size() + 1));
						std::sort(cuts.begin(), cuts.end());
					}
					cuts.push_back(text.size());
					size_t cur = 0;
					ParseResult last;
					arm();
					for (size_t c = 0; c < cuts.size(); c++)
					{
						last = parse_call(tok, text.substr(cur, cuts[c] - cur));
						cur = cuts[c];
						if (last.err != json_tokener_continue)
							break;
					}
					disarm();
					e.failed = last.err == json_tokener_error_memory ||
					           (g_alloc.fired > 0 && !last.has_value && last.err != json_tokener_success && last.err != json_tokener_continue);
					if (last.has_value && last.err != json_tokener_success)
						bad(ctx, "wrong-result", e, fails, ti, "parse_ex returned a value with status '%s'", json_tokener_error_desc((enum json_tokener_error)last.err));
					e.result = "err=" + std::to_string(last.err) + ";" + last.dump;
					if (e.failed && base)
					{
						// the parser must be reusable after reset and give the unfaulted answer
						LIBV(json_tokener_reset(tok));
						ParseResult again = parse_call(tok, text);
						if (mode == 1 && "err=" + std::to_string(again.err) + ";" + again.dump != base->result)
							bad(ctx, "parser-unusable-after-failure", e, fails, ti, "after the memory error, reset + parse gives %s, expected %s", again.str().c_str(), base->result.c_str());
						ctx.probe("retry_after_failure_ok");
					}
					LIBV(json_tokener_free(tok));
				}
			}
			// ---------------------------------------------------------------- constructors
			else if (op.kind == "t_ctor")
			{
				int which = (int)(op.arg(0) % 12);
				std::string s = op.data;
				for (auto &c : s)
					if (c == '\0')
						c = 'z';
				struct json_object *o = nullptr;
				bool null_is_ok = false;
				e.ran = true;
				static const char *names[12] = {"new_object", "new_array", "new_array_ext", "new_string", "new_string_len", "new_int", "new_int64", "new_uint64", "new_double",
				                                "new_double_s", "new_boolean", "new_null"};
				e.kind += std::string(":") + names[which];
				arm();
				{
					LibScope ls;
					switch (which)
					{
					case 0: o = json_object_new_object(); break;
					case 1: o = json_object_new_array(); break;
					case 2: o = json_object_new_array_ext((int)op.arg(1)); break;
					case 3: o = json_object_new_string(s.c_str()); break;
					case 4: o = json_object_new_string_len(op.data.data(), (int)op.data.size()); break;
					case 5: o = json_object_new_int((int32_t)op.arg(1)); break;
					case 6: o = json_object_new_int64(op.arg(1) * 1000003); break;
					case 7: o = json_object_new_uint64((uint64_t)op.arg(1) + 0x8000000000000000ULL); break;
					case 8: o = json_object_new_double((double)op.arg(1) / 7.0); break;
					case 9: o = json_object_new_double_s(1.5, "1.5000"); break;
					case 10: o = json_object_new_boolean((int)op.arg(1) & 1); break;
					default: o = json_object_new_null(); null_is_ok = true; break;
					}
				}
				disarm();
				e.failed = !o && !null_is_ok;
				e.result = typed_dump(o);
				if (o)
					extra.push_back(o);
			}
			// ---------------------------------------------------------------- object add
			else if (op.kind == "t_objadd" && !slots.empty() && slot(op.arg(0)) && json_object_get_type(slot(op.arg(0))) == json_type_object)
			{
				struct json_object *obj = slot(op.arg(0));
				int keymode = (int)(op.arg(1) % 4);
				std::string key = op.data;
				for (auto &c : key)
					if (c == '\0')
						c = 'z';
				unsigned opts = 0;
				const char *keyp = nullptr;
				int nmemb = json_object_object_length(obj);
				if (keymode == 1 && nmemb > 0)
				{
					// an existing key: the (arg3 mod n)-th member
					int want = (int)(op.arg(3) % nmemb), i = 0;
					json_object_object_foreach(obj, k, v)
					{
						(void)v;
						if (i++ == want)
							key = k;
					}
					keyp = key.c_str();
					e.kind += ":existing-key";
				}
				else if (keymode == 2)
				{
					keyp = kConstKeys[op.arg(3) % 4];
					opts = JSON_C_OBJECT_ADD_CONSTANT_KEY;
					if (!json_object_object_get_ex(obj, keyp, nullptr))
						opts |= (op.arg(3) & 8) ? JSON_C_OBJECT_ADD_KEY_IS_NEW : 0;
					e.kind += ":constant-key";
				}
				else
				{
					keyp = key.c_str();
					if (keymode == 3 && !json_object_object_get_ex(obj, keyp, nullptr))
					{
						opts = JSON_C_OBJECT_ADD_KEY_IS_NEW;
						e.kind += ":key-is-new";
					}
					else
						e.kind += ":new-key";
				}
				struct json_object *val = make_value((int)op.arg(2));
				std::string valdump = typed_dump(val);
				e.ran = true;
				mutated_slot = (int)slot_index(op.arg(0));
				std::string keycopy = keyp; // for ordinary keys json-c must have copied it
				arm();
				int rc = LIB(json_object_object_add_ex(obj, keyp, val, opts));
				disarm();
				e.failed = rc != 0;
				e.result = "rc=" + std::to_string(rc < 0 ? -1 : rc);
				if (e.failed)
				{
					// ownership of val stays with the caller: it must be intact and releasable
					if (typed_dump(val) != valdump)
						bad(ctx, "consumed-argument", e, fails, ti, "value passed to the failed add changed: %s -> %s", valdump.c_str(), typed_dump(val).c_str());
					if (base)
					{
						// retry without fault: must now succeed and give the unfaulted result
						int rc2 = LIB(json_object_object_add_ex(obj, keyp, val, opts));
						if (rc2 != 0)
							bad(ctx, "object-unusable-after-failure", e, fails, ti, "retrying the same add without fault returned %d", rc2);
						if (typed_dump(obj) != base->after)
							bad(ctx, "altered-preexisting", e, fails, ti, "after failed add + successful retry the object is %s, unfaulted run gives %s", typed_dump(obj).substr(0, 300).c_str(),
							    base->after.substr(0, 300).c_str());
						ctx.probe("retry_after_failure_ok");
						mutated_slot = -2; // already compared
					}
					else if (val)
						extra.push_back(val);
				}
			}
			// ---------------------------------------------------------------- array ops
			else if (op.kind == "t_arr" && !slots.empty() && slot(op.arg(0)) && json_object_get_type(slot(op.arg(0))) == json_type_array)
			{
				struct json_object *arr = slot(op.arg(0));
				int aop = (int)(op.arg(1) % 4);
				size_t idx = (size_t)op.arg(2);
				struct json_object *val = aop == 3 ? nullptr : make_value((int)op.arg(3));
				std::string valdump = typed_dump(val);
				static const char *an[4] = {"add", "insert_idx", "put_idx", "shrink"};
				e.kind += std::string(":") + an[aop];
				e.ran = true;
				mutated_slot = (int)slot_index(op.arg(0));
				auto doit = [&]() {
					LibScope ls;
					switch (aop)
					{
					case 0: return json_object_array_add(arr, val);
					case 1: return json_object_array_insert_idx(arr, idx, val);
					case 2: return json_object_array_put_idx(arr, idx, val);
					default: return json_object_array_shrink(arr, (int)(idx % 50));
					}
				};
				arm();
				int rc = doit();
				disarm();
				e.failed = rc != 0;
				e.result = "rc=" + std::to_string(rc < 0 ? -1 : rc);
				if (e.failed && aop != 3)
				{
					if (typed_dump(val) != valdump)
						bad(ctx, "consumed-argument", e, fails, ti, "value passed to the failed array call changed");
					if (base && !base->failed)
					{
						int rc2 = doit();
						if (rc2 != 0)
							bad(ctx, "array-unusable-after-failure", e, fails, ti, "retrying the same array call without fault returned %d", rc2);
						if (typed_dump(arr) != base->after)
							bad(ctx, "altered-preexisting", e, fails, ti, "after failed call + successful retry the array is %s, unfaulted run gives %s", typed_dump(arr).substr(0, 300).c_str(),
							    base->after.substr(0, 300).c_str());
						ctx.probe("retry_after_failure_ok");
						mutated_slot = -2;
					}
					else if (val)
						extra.push_back(val);
				}
			}
			// ---------------------------------------------------------------- set_string
			else if (op.kind == "t_setstr" && !slots.empty() && slot(op.arg(0)) && json_object_get_type(slot(op.arg(0))) == json_type_string)
			{
				struct json_object *s = slot(op.arg(0));
				std::string data = op.data;
				bool lenvariant = op.arg(1) & 1;
				if (!lenvariant)
				{
					size_t z = data.find('\0');
					if (z != std::string::npos)
						data.resize(z);
				}
				e.ran = true;
				e.kind += lenvariant ? ":set_string_len" : ":set_string";
				mutated_slot = (int)slot_index(op.arg(0));
				std::string z = data;
				z.push_back('\0');
				ExactBuf b(z);
				arm();
				int rc = lenvariant ? LIB(json_object_set_string_len(s, b.p, (int)data.size())) : LIB(json_object_set_string(s, b.p));
				disarm();
				e.failed = rc != 1;
				e.result = "rc=" + std::to_string(rc);
				if (!e.failed && node_bytes(s) != data)
					bad(ctx, "wrong-result", e, fails, ti, "set_string reported success but the node holds %s", hexenc(node_bytes(s)).c_str());
			}
			// ---------------------------------------------------------------- deep copy
			else if (op.kind == "t_copy" && !slots.empty() && slot(op.arg(0)))
			{
				struct json_object *src = slot(op.arg(0)), *dst = nullptr;
				e.ran = true;
				arm();
				int rc = LIB(json_object_deep_copy(src, &dst, nullptr));
				disarm();
				e.failed = rc != 0;
				if (e.failed && dst)
					bad(ctx, "bad-failure-channel", e, fails, ti, "json_object_deep_copy returned %d but left *dst non-NULL", rc);
				if (!e.failed && !dst)
					bad(ctx, "wrong-result", e, fails, ti, "json_object_deep_copy returned 0 with *dst == NULL");
				e.result = "rc=" + std::to_string(rc < 0 ? -1 : rc) + ";" + typed_dump(dst);
				if (dst)
					extra.push_back(dst);
			}
			// ---------------------------------------------------------------- serialize
			else if (op.kind == "t_ser" && !slots.empty() && slot(op.arg(0)))
			{
				struct json_object *o = slot(op.arg(0));
				int flags = (int)op.arg(1) & 63, variant = (int)(op.arg(2) % 3);
				e.ran = true;
				e.kind += variant == 0 ? ":to_json_string_ext" : variant == 1 ? ":to_json_string_length" : ":get_string";
				const char *txt;
				size_t len = 0;
				arm();
				if (variant == 0)
					txt = LIB(json_object_to_json_string_ext(o, flags));
				else if (variant == 1)
					txt = LIB(json_object_to_json_string_length(o, flags, &len));
				else
					txt = LIB(json_object_get_string(o));
				disarm();
				e.failed = txt == nullptr;
				e.result = txt ? std::string("text:") + (variant == 1 ? std::string(txt, len) : std::string(txt)) : std::string("NULL");
				if (txt && variant == 1 && len != strlen(txt))
					bad(ctx, "wrong-result", e, fails, ti, "reported length %zu differs from the text length %zu", len, strlen(txt));
			}
			// ---------------------------------------------------------------- pointer set / get
			else if (op.kind == "t_ptrset" && !slots.empty() && slot(op.arg(0)))
			{
				size_t si = slot_index(op.arg(0));
				std::string path = op.data;
				for (auto &c : path)
					if (c == '\0' || c == '%')
						c = 'z';
				struct json_object *val = make_value((int)op.arg(2));
				std::string valdump = typed_dump(val);
				bool f = op.arg(1) & 1;
				e.ran = true;
				e.kind += f ? ":setf" : ":set";
				mutated_slot = (int)si;
				arm();
				int rc = f ? LIB(json_pointer_setf(&slots[si], val, "%s", path.c_str())) : LIB(json_pointer_set(&slots[si], path.c_str(), val));
				disarm();
				e.failed = rc != 0;
				e.result = "rc=" + std::to_string(rc < 0 ? -1 : rc);
				if (e.failed)
				{
					if (typed_dump(val) != valdump)
						bad(ctx, "consumed-argument", e, fails, ti, "value passed to the failed json_pointer_set changed");
					if (val)
						extra.push_back(val);
				}
			}
			else if (op.kind == "t_ptrget" && !slots.empty() && slot(op.arg(0)))
			{
				std::string path = op.data;
				for (auto &c : path)
					if (c == '\0' || c == '%')
						c = 'z';
				struct json_object *res = nullptr;
				bool f = op.arg(1) & 1;
				e.ran = true;
				e.kind += f ? ":getf" : ":get";
				arm();
				int rc = f ? LIB(json_pointer_getf(slot(op.arg(0)), &res, "%s", path.c_str())) : LIB(json_pointer_get(slot(op.arg(0)), path.c_str(), &res));
				disarm();
				e.failed = rc != 0;
				e.result = "rc=" + std::to_string(rc < 0 ? -1 : rc) + ";" + (rc == 0 ? typed_dump(res) : std::string("-"));
			}
			// ---------------------------------------------------------------- patch
			else if (op.kind == "t_patch" && slots.size() >= 2 && slot(op.arg(0)) && slot(op.arg(1)) && slot_index(op.arg(0)) != slot_index(op.arg(1)))
			{
				size_t bi = slot_index(op.arg(0)), pi = slot_index(op.arg(1));
				bool copy_from = op.arg(2) & 1;
				struct json_patch_error perr;
				memset(&perr, 0, sizeof perr);
				e.ran = true;
				e.kind += copy_from ? ":copy_from" : ":in_place";
				struct json_object *newbase = nullptr;
				arm();
				int rc = copy_from ? LIB(json_patch_apply(slots[bi], slots[pi], &newbase, &perr)) : LIB(json_patch_apply(nullptr, slots[pi], &slots[bi], &perr));
				disarm();
				e.failed = rc != 0;
				if (copy_from)
				{
					e.result = "rc=" + std::to_string(rc < 0 ? -1 : rc) + ";" + (rc == 0 ? typed_dump(newbase) : std::string("-"));
					if (newbase)
						extra.push_back(newbase); // must be released by the caller even on failure (documented)
				}
				else
				{
					e.result = "rc=" + std::to_string(rc < 0 ? -1 : rc);
					mutated_slot = (int)bi;
					mutation_may_be_partial = true;
				}
				if (e.failed && e.fired && perr.errno_code == 0)
					bad(ctx, "bad-failure-channel", e, fails, ti, "json_patch_apply returned %d without setting errno_code", rc);
			}
			// ---------------------------------------------------------------- from_fd
			else if (op.kind == "t_fromfd")
			{
				g_fd.files["/jsim/in.json"] = op.data;
				int fd = g_fd.open_sim("/jsim/in.json", true, false, false, false);
				int depth = (int)op.arg(0, -1);
				if (depth == 0 || depth < -1)
					depth = -1;
				if (depth > 64)
					depth = 64;
				e.ran = true;
				e.kind += depth == -1 ? ":from_fd" : ":from_fd_ex";
				arm();
				struct json_object *o = depth == -1 ? LIB(json_object_from_fd(fd)) : LIB(json_object_from_fd_ex(fd, depth));
				disarm();
				close(fd);
				e.failed = o == nullptr;
				e.result = typed_dump(o);
				if (o)
					extra.push_back(o);
			}
			// ---------------------------------------------------------------- to_fd / to_file_ext
			else if (op.kind == "t_tofd" && !slots.empty() && slot(op.arg(0)))
			{
				int flags = (int)op.arg(1) & 63;
				int api = (int)(op.arg(2) % 3);
				g_fd.files.erase("/jsim/out.json");
				int fd = api == 0 ? g_fd.open_sim("/jsim/out.json", false, true, true, true) : -1;
				e.ran = true;
				e.kind += api == 0 ? ":to_fd" : api == 1 ? ":to_file_ext" : ":to_file";
				arm();
				int rc = api == 0 ? LIB(json_object_to_fd(fd, slot(op.arg(0)), flags))
				                  : api == 1 ? LIB(json_object_to_file_ext("/jsim/out.json", slot(op.arg(0)), flags)) : LIB(json_object_to_file("/jsim/out.json", slot(op.arg(0))));
				disarm();
				if (fd >= 0)
					close(fd);
				e.failed = rc != 0;
				// success means: the descriptor received the whole text (a reported success with missing bytes is a wrong result)
				e.result = "rc=" + std::to_string(rc < 0 ? -1 : rc) + (rc == 0 ? ";" + hexenc(g_fd.files.count("/jsim/out.json") ? g_fd.files["/jsim/out.json"] : std::string("<no file>")) : std::string());
			}
			// ---------------------------------------------------------------- tokener_new
			else if (op.kind == "t_toknew")
			{
				int depth = (int)op.arg(0, 32);
				if (depth < 1)
					depth = 1;
				if (depth > 1000)
					depth = 1000;
				e.ran = true;
				arm();
				struct json_tokener *t = LIB(json_tokener_new_ex(depth));
				disarm();
				e.failed = t == nullptr;
				e.result = t ? "tokener" : "NULL";
				if (t)
				{
					ParseResult r = parse_call(t, std::string("[1]\0", 4));
					e.result += ";" + r.dump;
					LIBV(json_tokener_free(t));
				}
			}
			// ---------------------------------------------------------------- lh_table / array_list used directly
			else if (op.kind == "t_lh")
			{
				// sequence under one fault script: new, n inserts (a failed insert is retried once, must then succeed), lookups, deletes, free
				int size = (int)op.arg(0, 4), n = (int)op.arg(1, 5);
				if (size < 1)
					size = 1;
				if (size > 64)
					size = 64;
				if (n > 60)
					n = 60;
				e.ran = true;
				Rng kr((uint64_t)op.arg(2) + 1);
				std::vector<std::string> keys;
				for (int i = 0; i < n; i++)
					keys.push_back("key" + std::to_string(kr.below(40)) + (i % 3 ? "" : "-x"));
				arm();
				struct lh_table *t = LIB(lh_kchar_table_new(size, lh_free_key));
				std::string res;
				int inserted = 0, retried = 0;
				if (!t)
				{
					e.failed = true;
					res = "NULL";
				}
				else
				{
					std::vector<std::string> live;
					for (int i = 0; i < n; i++)
					{
						if (LIB(lh_table_lookup_entry(t, keys[(size_t)i].c_str())))
							continue; // callers look a key up before inserting it
						char *kc = strdup(keys[(size_t)i].c_str());
						int rc = LIB(lh_table_insert(t, kc, (void *)(intptr_t)(i + 1)));
						if (rc != 0)
						{
							retried++;
							// the failed insert must have changed nothing: every earlier key is still there
							for (auto &k : live)
								if (!LIB(lh_table_lookup_entry(t, k.c_str())))
								{
									disarm();
									bad(ctx, "altered-preexisting", e, fails, ti, "after a failed lh_table_insert key '%s' is no longer found", k.c_str());
								}
							std::vector<long> saved = g_alloc.fail_at;
							g_alloc.fail_at.clear();
							rc = LIB(lh_table_insert(t, kc, (void *)(intptr_t)(i + 1)));
							g_alloc.fail_at = saved;
							if (rc != 0)
							{
								disarm();
								free(kc);
								bad(ctx, "table-unusable-after-failure", e, fails, ti, "retrying the failed lh_table_insert without fault failed again");
							}
						}
						live.push_back(keys[(size_t)i]);
						inserted++;
					}
					disarm();
					if (LIB(lh_table_length(t)) != (int)live.size())
						bad(ctx, "wrong-result", e, fails, ti, "lh_table_length %d after %zu successful inserts", LIB(lh_table_length(t)), live.size());
					std::string order;
					{
						LibScope ls;
						struct lh_entry *en;
						lh_foreach(t, en) order += std::string((const char *)lh_entry_k(en)) + "=" + std::to_string((intptr_t)lh_entry_v(en)) + ",";
					}
					for (size_t i = 0; i < live.size(); i += 2)
						if (LIB(lh_table_delete(t, live[i].c_str())) != 0)
							bad(ctx, "wrong-result", e, fails, ti, "lh_table_delete of live key '%s' failed", live[i].c_str());
					res = "inserted=" + std::to_string(inserted) + ";" + order + ";len=" + std::to_string(LIB(lh_table_length(t)));
					LIBV(lh_table_free(t));
				}
				if (!t)
					disarm();
				e.result = res;
				(void)retried;
			}
			else if (op.kind == "t_al")
			{
				int cap = (int)op.arg(0, 32), n = (int)op.arg(1, 5);
				if (cap < 0)
					cap = 0;
				if (cap > 64)
					cap = 64;
				if (n > 60)
					n = 60;
				e.ran = true;
				Rng kr((uint64_t)op.arg(2) + 7);
				arm();
				struct array_list *al = LIB(array_list_new2(al_free_elem, cap));
				std::string res;
				if (!al)
				{
					e.failed = true;
					res = "NULL";
					disarm();
				}
				else
				{
					std::vector<intptr_t> model;
					auto snapshot = [&]() {
						std::string o;
						size_t len = LIB(array_list_length(al));
						for (size_t i = 0; i < len; i++)
							o += std::to_string((intptr_t)LIB(array_list_get_idx(al, i)) ? *(int *)LIB(array_list_get_idx(al, i)) : 0) + ",";
						return o;
					};
					for (int i = 0; i < n; i++)
					{
						int *v = (int *)malloc(sizeof(int));
						*v = i + 1;
						int which = (int)kr.below(4);
						size_t len = LIB(array_list_length(al));
						size_t idx = len ? (size_t)kr.below(len + 3) : 0;
						std::string before_op = snapshot();
						auto doit = [&]() {
							LibScope ls;
							switch (which)
							{
							case 0: return array_list_add(al, v);
							case 1: return array_list_put_idx(al, idx, v);
							case 2: return array_list_insert_idx(al, idx, v);
							default: return array_list_shrink(al, idx % 5);
							}
						};
						int rc = doit();
						if (rc != 0)
						{
							if (snapshot() != before_op)
							{
								disarm();
								bad(ctx, "altered-preexisting", e, fails, ti, "a failed array_list call changed the list: %s -> %s", before_op.c_str(), snapshot().c_str());
							}
							std::vector<long> saved = g_alloc.fail_at;
							g_alloc.fail_at.clear();
							rc = doit();
							g_alloc.fail_at = saved;
							if (rc != 0)
							{
								disarm();
								free(v);
								bad(ctx, "list-unusable-after-failure", e, fails, ti, "retrying the failed array_list call without fault failed again");
							}
						}
						if (which == 3)
							free(v); // shrink stores nothing
					}
					disarm();
					res = snapshot();
					LIBV(array_list_free(al));
				}
				e.result = res;
			}
			// ---------------------------------------------------------------- double format
			else if (op.kind == "t_fmt" && !slots.empty() && slot(0))
			{
				std::string f = op.data;
				bool valid = f.empty() || (f.find('%') != std::string::npos && f.find('f') != std::string::npos && f.size() < 10);
				if (valid)
				{
					int scope = (op.arg(0) & 1) ? JSON_C_OPTION_THREAD : JSON_C_OPTION_GLOBAL;
					e.ran = true;
					e.kind += scope == JSON_C_OPTION_THREAD ? ":thread" : ":global";
					mutated_slot = -2; // the dump of a tree shows API-made doubles through the format in effect: trees are compared by the texts below instead
					std::string old_text = ser(slot(0), 0);
					fmt_touched = true;
					arm();
					int rc = LIB(json_c_set_serialization_double_format(f.empty() ? nullptr : f.c_str(), scope));
					disarm();
					e.failed = rc != 0;
					// whatever happened, serializing doubles afterwards must work (no dangling format)
					std::string new_text = ser(slot(0), 0);
					e.result = "rc=" + std::to_string(rc < 0 ? -1 : rc);
					if (!e.failed)
						e.result += ";" + new_text;
					else if (base)
					{
						// after a failed set the previous or the default format is in effect
						LIB(json_c_set_serialization_double_format(nullptr, JSON_C_OPTION_GLOBAL));
						std::string dflt = ser(slot(0), 0);
						if (new_text != old_text && new_text != dflt)
							bad(ctx, "wrong-result", e, fails, ti, "after the failed format change doubles serialise as %s (before: %s, default: %s)", new_text.c_str(), old_text.c_str(),
							    dflt.c_str());
					}
				}
			}
		}
		// ---- common oracle against the unfaulted execution
		if (e.ran)
		{
			if (mutated_slot >= 0)
				e.after = typed_dump(slots[(size_t)mutated_slot]);
			if (base)
			{
				if (e.fired == 0 && g_alloc.cap_refused == 0)
				{
					// the fault index was not reached (cannot happen for k < N unless the run is not deterministic)
					if (e.result != base->result)
						bad(ctx, "nondeterministic-workload", e, fails, ti, "no fault fired but the result differs from the unfaulted run");
				}
				if (!e.failed)
				{
					if (e.result != base->result)
						bad(ctx, "wrong-result", e, fails, ti, "reported success with result %s; the unfaulted result is %s", e.result.substr(0, 400).c_str(), base->result.substr(0, 400).c_str());
					if (mutated_slot >= 0 && e.after != base->after)
						bad(ctx, "wrong-result", e, fails, ti, "reported success but the target is %s; the unfaulted run leaves %s", e.after.substr(0, 300).c_str(), base->after.substr(0, 300).c_str());
					if (e.fired)
						ctx.probe("op_survived_fault_with_normal_result");
				}
				else if (!base->failed)
				{
					// failed because of the fault: legitimate only through the documented channel (checked above) and with nothing altered
					if (e.fired == 0 && g_alloc.cap_refused == 0)
						bad(ctx, "spurious-failure", e, fails, ti, "the operation failed although no allocation failed");
				}
			}
			// pre-existing trees: unchanged, except the target of a successful (or documented-partial) mutation
			for (size_t i = 0; i < slots.size() && i < before.size(); i++)
			{
				if ((int)i == mutated_slot && (!e.failed || mutation_may_be_partial))
					continue;
				if (mutated_slot == -2)
					continue;
				std::string now = typed_dump(slots[i]);
				e.slots_after.resize(slots.size());
				e.slots_after[i] = now;
				// (an unfaulted patch may legitimately alias nodes of the patch document into the base: accept what the unfaulted run leaves)
				if (now != before[i] && !(base && i < base->slots_after.size() && now == base->slots_after[i]) && base)
					bad(ctx, "altered-preexisting", e, fails, ti, "pre-existing tree #%zu changed: %s -> %s", i, before[i].substr(0, 300).c_str(), now.substr(0, 300).c_str());
			}
		}
		// ---- release everything; nothing may remain allocated
		for (auto *o : extra)
			LIBV(json_object_put(o));
		for (auto *o : slots)
			if (o)
				LIBV(json_object_put(o));
		if (fmt_touched)
		{
			LIB(json_c_set_serialization_double_format(nullptr, JSON_C_OPTION_GLOBAL));
			LIB(json_c_set_serialization_double_format(nullptr, JSON_C_OPTION_THREAD));
		}
		g_fd.reset_run();
		if (!g_alloc.live.empty())
		{
			std::string lsite = g_alloc.first_live_site();
			Exec e2 = e;
			std::string desc = g_alloc.describe_live();
			size_t nlive = g_alloc.live.size();
			g_alloc.live.clear();
			ctx.refine_op = (int)ti;
			ctx.refine_faults.clear();
			for (auto k : fails)
			{
				Fault f;
				f.kind = "alloc";
				f.a = {k};
				ctx.refine_faults.push_back(f);
			}
			std::string fs;
			for (auto k : fails)
				fs += (fs.empty() ? "" : ",") + std::to_string(k);
			ctx.fail("C08:leak@" + lsite + (e.sites.empty() ? "" : "|fault@" + e.sites[0]), "%s with allocation #%s failing (at %s): %zu allocation(s) never released:%s", e.kind.c_str(),
			         fs.c_str(), e.sites.empty() ? "-" : e.sites[0].c_str(), nlive, desc.c_str());
		}
		return e;
	}

	void run(const Plan &p, RunCtx &ctx) override
	{
		// explicit fault attachments on the operation under test => run exactly that (replay of a minimised violation)
		std::vector<long> explicit_fails;
		bool has_explicit = false;
		for (auto &op : p.ops)
			if (op.kind.rfind("t_", 0) == 0)
			{
				for (auto &f : op.faults)
					if (f.kind == "alloc" && !f.a.empty())
					{
						explicit_fails.push_back((long)f.a[0]);
						has_explicit = true;
					}
				break;
			}
		g_alloc.record_sites = true;
		Exec base = exec(p, {}, nullptr, ctx);
		g_alloc.record_sites = false;
		for (auto &s : g_alloc.sites_seen)
			ctx.cover("site|" + s);
		g_alloc.sites_seen.clear();
		if (!base.ran)
		{
			ctx.log("workload not applicable");
			return;
		}
		ctx.log("%s unfaulted: N=%ld result=%s", base.kind.c_str(), base.nalloc, base.result.substr(0, 100).c_str());
		ctx.cover("op|" + base.kind + (base.failed ? "|fails-unfaulted" : ""));
		ctx.count("steps.unfaulted_executions");
		if (base.nalloc > 0)
			ctx.nontrivial = true;
		auto one = [&](const std::vector<long> &fails) {
			Exec e = exec(p, fails, &base, ctx);
			ctx.count("steps.faulted_executions");
			ctx.count("fault.alloc.configured", fails.size());
			std::string site = e.sites.empty() ? "-" : e.sites[0];
			ctx.log(" fail#%ld%s -> %s %s @%s", fails[0], fails.size() > 1 ? "+" : "", e.failed ? "FAILED" : "ok", e.result.substr(0, 60).c_str(), site.c_str());
			ctx.cover("failed|" + base.kind + "|" + site + "|" + (e.failed ? "clean-failure" : "normal-result"));
			if (e.fired >= 2)
				ctx.probe("double_fault.both_fired");
			if (e.failed && e.fired)
			{
				const std::string &k = base.kind;
				if (k.find("t_parse") == 0)
				{
					if (site.find("json_tokener_new") != std::string::npos)
						ctx.probe("failed.parse.tokener_new");
					if (site.find("printbuf_extend") == 0)
						ctx.probe("failed.parse.printbuf_growth");
					if (site.find("array_list") != std::string::npos || site.find("lh_table") != std::string::npos || site.find("json_object_object_add") != std::string::npos)
						ctx.probe("failed.parse.child_attach");
				}
				if (k.find("t_objadd") == 0)
					ctx.probe(site.find("lh_table") != std::string::npos ? "failed.object_add.table_resize" : "failed.object_add.key_copy");
				if (k.find("t_arr") == 0)
					ctx.probe("failed.array.growth");
				if (k.find("t_setstr") == 0)
					ctx.probe("failed.set_string.buffer");
				if (k.find("t_copy") == 0 && fails[0] > 0)
					ctx.probe("failed.deep_copy.midway");
				if (k.find("t_ser") == 0)
					ctx.probe(site.find("printbuf_new") != std::string::npos ? "failed.serialize.buffer_new" : "failed.serialize.buffer_growth");
				if (k.find("t_ptr") == 0)
					ctx.probe("failed.pointer.path_copy");
				if (k.find("t_patch:copy_from") == 0)
					ctx.probe("failed.patch.copy_from");
				if (k.find("t_fromfd") == 0)
					ctx.probe("failed.from_fd.buffer");
				if (k.find("t_fmt") == 0)
					ctx.probe("failed.double_format.copy");
			}
		};
		if (has_explicit)
		{
			one(explicit_fails);
			return;
		}
		for (long k = 0; k < base.nalloc; k++)
			one({k});
		// sampled double faults
		int pairs = (int)p.c("pairs");
		if (base.nalloc >= 2 && pairs > 0)
		{
			Rng pr((uint64_t)p.c("pair_seed") + 99);
			for (int i = 0; i < pairs; i++)
			{
				long k1 = (long)pr.below((uint64_t)base.nalloc), k2 = (long)pr.below((uint64_t)base.nalloc);
				if (k1 == k2)
					continue;
				if (k1 > k2)
					std::swap(k1, k2);
				one({k1, k2});
			}
		}
	}
};
REGISTER_PROPERTY(C08)
} // namespace
