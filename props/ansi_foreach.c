/* Compiled as strict ISO C (-std=c99): json_object.h then selects the SECOND definition of json_object_object_foreach
 * (the one without statement expressions).  The C++ harness only ever sees the GNU variant, so the documented behaviour
 * "deleting the current key while iterating does not disturb the rest" is exercised for this variant from here. */
#include "json.h"
#include <stddef.h>

#ifndef __STRICT_ANSI__
#error "this file must be compiled with -std=c99 (strict ANSI) to select the ANSI variant of the foreach macro"
#endif

typedef void (*jsim_seen_fn)(void *ctx, const char *key, struct json_object *val);

/* visit every member; report it through seen() first, then delete it when its position i satisfies
 * i >= first && (i - first) % stride == 0.  Returns the number of members visited. */
size_t jsim_ansi_foreach_del(struct json_object *obj, size_t first, int stride, jsim_seen_fn seen, void *ctx)
{
	size_t i = 0;
	json_object_object_foreach(obj, key, val)
	{
		seen(ctx, key, val);
		if (i >= first && (i - first) % (size_t)stride == 0)
			json_object_object_del(obj, key);
		i++;
	}
	return i;
}
