// C07 — a JSON array behaves as a sequence with null gaps under any operation history.
// Simulated: histories of add / put_idx / insert_idx / del_idx / shrink / sort / bsearch / get_idx on arrays created with
// capacity 0, 1, 32 or random, indices drawn around 0, length, beyond the end and next to SIZE_MAX; the faulted batch
// fails the growth/shrink realloc.  Oracle: std::vector model (element identity or null) compared after every op;
// destruction callbacks tell which elements were released in which op.
#include "common.h"
#include <algorithm>
#include <map>
#include <climits>

namespace
{
struct C07 : Property
{
	const char *id() const override { return "C07"; }
	const char *level() const override { return "exploration"; }
	uint64_t runs(Tier t) const override { return t == QUICK ? 250000 : 8000000; }
	std::string rule() const override
	{
		return "seeded histories (<=45 ops) of json_object_array_add/put_idx/insert_idx/del_idx/shrink/sort/bsearch/get_idx on arrays with initial capacity 0,1,2,32 or "
		       "random; indices/counts inside, at and beyond the bounds, 2^24.. (capacity refusal) and SIZE_MAX-adjacent; odd run indices attach allocation failures. "
		       "A run is non-trivial if it contains a gap-creating put, a shifting insert, a range delete or a refused op; distinct = distinct sets of "
		       "(op, index-vs-length class, outcome) keys.";
	}
	std::vector<std::string> assumptions() const override
	{
		return {"elements are int nodes carrying a destruction callback (json_object_set_userdata) so every release is observed", "allocator refuses single requests above 64 MiB",
		        "negative empty_slots for shrink and wrong-type containers are caller errors and not generated"};
	}
	std::vector<std::string> probes() const override
	{
		return {"put.beyond_end_gap_fill", "put.overwrite_releases_old", "put.overwrite_gap_slot", "insert.shift", "insert.at_or_beyond_end", "del.range_with_gaps", "del.out_of_range_refused",
		        "del.count_overflow_refused", "shrink.unsatisfiable_refused", "sort.key_changed_in_place", "index.size_max_adjacent_refused", "index.capacity_refused", "shrink.then_grow", "sort.with_nulls", "bsearch.hit", "bsearch.miss",
		        "fault.growth_failed_unchanged", "capacity0.first_add", "put.same_element_again"};
	}

	Plan generate(Rng &r, Tier, uint64_t index) override
	{
		Plan p;
		bool faulted = index & 1;
		p.cfg["faulted"] = faulted;
		static const int caps[] = {0, 1, 2, 32, 32, 5};
		p.cfg["cap"] = r.chance(1, 6) ? (int64_t)r.range(0, 70) : caps[r.below(6)];
		int nops = (int)r.range(3, 45);
		// rarely: a vector that is already large (capacity policies may change with size), then far puts/inserts relative to THAT capacity
		bool big = r.chance(1, 150);
		if (big)
			nops = (int)r.range(3, 10);
		int64_t len = 0; // rough prediction to aim indices
		std::vector<std::string> kinds = {"add", "put", "insert", "del", "shrink", "sort", "bsearch", "get", "reput", "rekey"};
		std::vector<std::string> en;
		for (auto &k : kinds)
			if (r.chance(3, 4))
				en.push_back(k);
		if (en.empty())
			en.push_back("add");
		for (int i = 0; i < nops; i++)
		{
			Op op;
			op.kind = r.pick(en);
			auto index_near = [&]() -> int64_t {
				if (big && r.chance(2, 3))
					switch (r.below(4))
					{
					case 0: return 65536 + (int64_t)r.below(6000);
					case 1: return len + len / 2 + (int64_t)r.range(20, 60);
					case 2: return 2 * len + (int64_t)r.below(40);
					default: return std::max<int64_t>(0, len - (int64_t)r.below(3));
					}
				switch (r.below(9))
				{
				case 0: return 0;
				case 1: return len;
				case 2: return len > 0 ? len - 1 : 0;
				case 3: return len + 1;
				case 4: return len + (int64_t)r.range(2, 40);
				case 5: return (int64_t)r.below((uint64_t)len + 1);
				case 6: return -(int64_t)r.range(1, 3); // SIZE_MAX - k + 1  (as size_t)
				case 7: return ((int64_t)1 << 24) + (int64_t)r.below(1000); // finite memory refuses
				default: return (int64_t)r.below((uint64_t)len + 3);
				}
			};
			if (op.kind == "add")
			{
				op.a = {(int64_t)r.below(8), (int64_t)r.below(2)}; // 0 => null element; second: through array_list_add() on json_object_get_array()
				len++;
			}
			else if (op.kind == "put" || op.kind == "insert")
			{
				int64_t idx = index_near();
				op.a = {idx, (int64_t)r.below(8)};
				if (idx >= 0 && idx < (1 << 20))
					len = op.kind == "insert" && idx < len ? len + 1 : std::max(len, idx + 1);
			}
			else if (op.kind == "del")
			{
				int64_t idx = index_near();
				int64_t cnt;
				switch (r.below(6))
				{
				case 0: cnt = 0; break;
				case 1: cnt = 1; break;
				case 2: cnt = len - idx; break;
				case 3: cnt = len - idx + 1; break;
				case 4: cnt = -(int64_t)r.range(1, 3); break; // near SIZE_MAX
				default: cnt = (int64_t)r.range(1, 5); break;
				}
				op.a = {idx, cnt};
				if (idx >= 0 && cnt >= 0 && idx < len && idx + cnt <= len)
					len -= cnt;
			}
			else if (op.kind == "rekey")
				op.a = {(int64_t)r.below(1000), (int64_t)r.below(23)};
			else if (op.kind == "shrink")
				op.a = {r.chance(1, 6) ? (r.chance(1, 2) ? -(int64_t)r.range(1, 70) : ((int64_t)1 << 40) + (int64_t)r.below(9)) : (int64_t)r.pick(std::vector<int>{0, 0, 1, 3, 40})};
			else if (op.kind == "bsearch")
				op.a = {(int64_t)r.range(0, 60)};
			else if (op.kind == "get" || op.kind == "reput")
				op.a = {index_near()};
			if (faulted && r.chance(1, 4))
			{
				Fault f;
				f.kind = "alloc";
				f.a = {0};
				op.faults.push_back(f);
			}
			p.ops.push_back(op);
		}
		return p;
	}

	struct Elem
	{
		struct json_object *o; // nullptr = gap / null element
		int64_t id;
	};
	static std::vector<int64_t> *g_destroyed;
	static void on_delete(struct json_object *, void *ud)
	{
		HarnessScope hs;
		if (g_destroyed)
			g_destroyed->push_back((int64_t)(intptr_t)ud);
	}
	// sort order: nulls first, then by integer value, ties by nothing (stable not required)
	static int cmp(const void *a, const void *b)
	{
		struct json_object *x = *(struct json_object *const *)a, *y = *(struct json_object *const *)b;
		if (!x || !y)
			return (x ? 1 : 0) - (y ? 1 : 0);
		int64_t vx = json_object_get_int64(x), vy = json_object_get_int64(y);
		return vx < vy ? -1 : vx > vy ? 1 : 0;
	}

	void run(const Plan &p, RunCtx &ctx) override
	{
		std::vector<int64_t> destroyed;
		g_destroyed = &destroyed;
		struct Guard
		{
			~Guard() { g_destroyed = nullptr; }
		} guard;
		int cap = (int)p.c("cap", 32);
		if (cap < 0)
			cap = 0;
		if (cap > 4096)
			cap = 4096;
		struct json_object *arr = LIB(json_object_new_array_ext(cap));
		if (!arr)
			ctx.fail("C07:new-failed", "json_object_new_array_ext(%d) failed", cap);
		std::vector<Elem> model;
		int64_t next_id = 1;
		bool sorted = false;
		bool shrunk = false;
		auto new_elem = [&](int64_t kind) -> Elem {
			Elem e;
			if (kind == 0)
			{
				e.o = nullptr;
				e.id = 0;
				return e;
			}
			e.id = next_id++;
			// values repeat now and then so that sort/bsearch meet duplicates
			e.o = LIB(json_object_new_int64((e.id * 7) % 23));
			LIBV(json_object_set_userdata(e.o, (void *)(intptr_t)e.id, on_delete));
			return e;
		};
		auto verify = [&](const char *after, size_t oi) {
			size_t n = LIB(json_object_array_length(arr));
			if (n != model.size())
				ctx.fail("C07:length-mismatch", "after op %zu (%s): length %zu, model %zu", oi, after, n, model.size());
			for (size_t i = 0; i < model.size() + 3; i++)
			{
				struct json_object *g = LIB(json_object_array_get_idx(arr, i));
				struct json_object *want = i < model.size() ? model[i].o : nullptr;
				if (g != want)
					ctx.fail("C07:element-mismatch", "after op %zu (%s): element %zu is %s, model has %s (length %zu)", oi, after, i, typed_dump(g).c_str(),
					         i < model.size() ? typed_dump(want).c_str() : "nothing (past the end => null)", model.size());
			}
		};
		verify("new", 0);
		for (size_t oi = 0; oi < p.ops.size(); oi++)
		{
			const Op &op = p.ops[oi];
			// the value to store is created by the caller before the (possibly faulted) call
			Elem pre{nullptr, 0};
			if (op.kind == "add")
				pre = new_elem(op.arg(0));
			else if (op.kind == "put" || op.kind == "insert")
				pre = new_elem(op.arg(1));
			struct json_object *bkey = op.kind == "bsearch" && sorted ? LIB(json_object_new_int64(op.arg(0) % 23)) : nullptr;
			arm_faults(op, ctx);
			destroyed.clear();
			std::vector<int64_t> expect_destroyed;
			size_t len = model.size();
			int rc = 0;
			std::string rel = "-";
			bool refused_ok = false; // failure is the expected answer
			auto classify = [&](size_t idx) {
				if (idx == (size_t)-1 || idx == (size_t)-2 || idx == (size_t)-3)
					return "size-max-adjacent";
				if (idx >= ((size_t)1 << 23))
					return "beyond-memory";
				if (idx < len)
					return idx + 1 == len ? "last" : "inside";
				return idx == len ? "at-end" : "beyond-end";
			};
			if (op.kind == "add")
			{
				Elem e = pre;
				if (model.empty() && cap == 0)
					ctx.probe("capacity0.first_add");
				if (shrunk)
					ctx.probe("shrink.then_grow");
				rc = (op.arg(1) & 1) ? LIB(array_list_add(LIB(json_object_get_array(arr)), e.o)) : LIB(json_object_array_add(arr, e.o));
				rel = "at-end";
				if (rc == 0)
				{
					model.push_back(e);
					sorted = false;
				}
				else
				{
					if (!(g_alloc.fired || g_alloc.cap_refused))
						ctx.fail("C07:spurious-failure", "op %zu: json_object_array_add failed without an allocation failure", oi);
					if (e.o)
					{
						if (!destroyed.empty())
							ctx.fail("C07:failed-op-consumed-value", "op %zu: failed add released the caller's value", oi);
						LIBV(json_object_put(e.o));
						destroyed.clear();
					}
				}
			}
			else if (op.kind == "put" || op.kind == "insert")
			{
				size_t idx = (size_t)op.arg(0);
				Elem e = pre;
				rel = classify(idx);
				bool is_insert = op.kind == "insert" && idx < len;
				if (shrunk)
					ctx.probe("shrink.then_grow");
				if (op.kind == "put")
					rc = LIB(json_object_array_put_idx(arr, idx, e.o));
				else
					rc = LIB(json_object_array_insert_idx(arr, idx, e.o));
				bool must_refuse = idx > (size_t)-1 - 1 || idx >= ((size_t)1 << 23);
				if (rc == 0)
				{
					if (must_refuse)
						ctx.fail("C07:oversize-accepted", "op %zu: %s at index %zu reported success", oi, op.kind.c_str(), idx);
					if (is_insert)
					{
						model.insert(model.begin() + (long)idx, e);
						ctx.probe("insert.shift");
					}
					else
					{
						if (op.kind == "insert")
							ctx.probe("insert.at_or_beyond_end");
						if (idx < len)
						{
							if (model[idx].o)
							{
								expect_destroyed.push_back(model[idx].id);
								ctx.probe("put.overwrite_releases_old");
							}
							else
								ctx.probe("put.overwrite_gap_slot");
							model[idx] = e;
						}
						else
						{
							if (idx > len)
								ctx.probe("put.beyond_end_gap_fill");
							model.resize(idx, Elem{nullptr, 0});
							model.push_back(e);
						}
					}
					sorted = false;
					ctx.nontrivial = ctx.nontrivial || is_insert || idx > len;
				}
				else
				{
					refused_ok = must_refuse;
					if (!refused_ok && !(g_alloc.fired || g_alloc.cap_refused))
						ctx.fail("C07:spurious-failure", "op %zu: %s at index %zu (length %zu) failed without an allocation failure", oi, op.kind.c_str(), idx, len);
					if (std::string(rel) == "size-max-adjacent")
						ctx.probe("index.size_max_adjacent_refused");
					if (std::string(rel) == "beyond-memory")
						ctx.probe("index.capacity_refused");
					if (e.o)
					{
						if (!destroyed.empty())
							ctx.fail("C07:failed-op-consumed-value", "op %zu: failed %s released something (%zu callbacks)", oi, op.kind.c_str(), destroyed.size());
						LIBV(json_object_put(e.o));
						destroyed.clear();
					}
					ctx.nontrivial = true;
				}
			}
			else if (op.kind == "del")
			{
				size_t idx = (size_t)op.arg(0), cnt = (size_t)op.arg(1);
				rel = classify(idx);
				bool overflow = idx > (size_t)-1 - cnt;
				bool valid = !overflow && idx < len && idx + cnt <= len;
				rc = LIB(json_object_array_del_idx(arr, idx, cnt));
				if (valid)
				{
					if (rc != 0)
						ctx.fail("C07:valid-delete-refused", "op %zu: del_idx(%zu,%zu) on length %zu returned %d", oi, idx, cnt, len, rc);
					bool gaps = false;
					for (size_t k = idx; k < idx + cnt; k++)
					{
						if (model[k].o)
							expect_destroyed.push_back(model[k].id);
						else
							gaps = true;
					}
					if (gaps && cnt > 1)
						ctx.probe("del.range_with_gaps");
					model.erase(model.begin() + (long)idx, model.begin() + (long)(idx + cnt));
					if (cnt > 0)
						ctx.nontrivial = true;
				}
				else
				{
					if (rc == 0)
						ctx.fail("C07:invalid-delete-accepted", "op %zu: del_idx(%zu,%zu) on length %zu returned 0", oi, idx, cnt, len);
					refused_ok = true;
					ctx.probe(overflow ? "del.count_overflow_refused" : "del.out_of_range_refused");
					ctx.nontrivial = true;
				}
			}
			else if (op.kind == "shrink")
			{
				if (op.arg(0) < 0 || op.arg(0) > 1000)
				{
					// SIZE_MAX-adjacent / unsatisfiable slack through the array_list entry point (json_object_array_shrink takes an int):
					// must be refused and change nothing (the model is compared below as after every op)
					size_t want = (size_t)op.arg(0);
					rc = LIB(array_list_shrink(LIB(json_object_get_array(arr)), want));
					if (rc == 0)
						ctx.fail("C07:invalid-shrink-accepted", "op %zu: array_list_shrink(%zu) on length %zu returned 0", oi, want, len);
					refused_ok = true;
					ctx.probe("shrink.unsatisfiable_refused");
					ctx.nontrivial = true;
					rc = 0; // (handled)
				}
				else
				{
				int slots = (int)op.arg(0);
				rc = LIB(json_object_array_shrink(arr, slots));
				if (rc != 0 && !(g_alloc.fired || g_alloc.cap_refused))
					ctx.fail("C07:spurious-failure", "op %zu: json_object_array_shrink(%d) failed without an allocation failure", oi, slots);
				shrunk = true;
				}
			}
			else if (op.kind == "rekey")
			{
				// the caller changes the sort key of an element in place (it owns the array): a later sort must sort again
				if (!model.empty())
				{
					Elem &e = model[(size_t)op.arg(0) % model.size()];
					if (e.o)
					{
						LIB(json_object_set_int64(e.o, op.arg(1) % 23));
						sorted = false;
						ctx.probe("sort.key_changed_in_place");
					}
				}
			}
			else if (op.kind == "sort")
			{
				LIBV(json_object_array_sort(arr, cmp));
				std::vector<Elem> got;
				size_t n = LIB(json_object_array_length(arr));
				if (n != model.size())
					ctx.fail("C07:length-mismatch", "op %zu: sort changed the length %zu -> %zu", oi, model.size(), n);
				bool has_null = false;
				std::vector<struct json_object *> a, b;
				for (size_t i = 0; i < n; i++)
				{
					struct json_object *g = LIB(json_object_array_get_idx(arr, i));
					a.push_back(g);
					b.push_back(model[i].o);
					has_null = has_null || !g;
				}
				for (size_t i = 0; i + 1 < n; i++)
					if (cmp(&a[i], &a[i + 1]) > 0)
						ctx.fail("C07:sort-not-ordered", "op %zu: after sort element %zu (%s) > element %zu (%s)", oi, i, typed_dump(a[i]).c_str(), i + 1, typed_dump(a[i + 1]).c_str());
				std::vector<struct json_object *> sa = a, sb = b;
				std::sort(sa.begin(), sa.end());
				std::sort(sb.begin(), sb.end());
				if (sa != sb)
					ctx.fail("C07:sort-not-permutation", "op %zu: sort did not produce a permutation of the elements", oi);
				// adopt the library's order (any order consistent with the comparator is acceptable)
				std::vector<Elem> nm;
				std::map<struct json_object *, int64_t> id_of;
				for (auto &m : model)
					if (m.o)
						id_of[m.o] = m.id;
				for (auto *g : a)
				{
					Elem e{g, 0};
					if (g)
						e.id = id_of[g];
					nm.push_back(e);
				}
				model = nm;
				sorted = true;
				if (has_null)
					ctx.probe("sort.with_nulls");
			}
			else if (op.kind == "bsearch")
			{
				if (sorted)
				{
					int64_t want = op.arg(0) % 23;
					struct json_object *key = bkey;
					struct json_object *hit = LIB(json_object_array_bsearch(key, arr, cmp));
					bool model_has = false;
					for (auto &m : model)
						if (m.o && json_object_get_int64(m.o) == want)
							model_has = true;
					if (model_has != (hit != nullptr))
						ctx.fail("C07:bsearch-mismatch", "op %zu: bsearch(%lld) %s but the model %s it", oi, (long long)want, hit ? "found an element" : "found nothing",
						         model_has ? "contains" : "does not contain");
					if (hit && json_object_get_int64(hit) != want)
						ctx.fail("C07:bsearch-wrong-element", "op %zu: bsearch(%lld) returned %s", oi, (long long)want, typed_dump(hit).c_str());
					ctx.probe(hit ? "bsearch.hit" : "bsearch.miss");
					LIBV(json_object_put(key));
					rel = hit ? "hit" : "miss";
				}
			}
			else if (op.kind == "reput")
			{
				// store the element that is already there once more (with a reference of its own, as the API requires):
				// the slot's old reference is released, the new one taken - nothing is destroyed, nothing leaks
				size_t idx = len ? (size_t)(op.arg(0) < 0 ? -op.arg(0) : op.arg(0)) % len : 0;
				rel = "same-element";
				if (len && model[idx].o)
				{
					struct json_object *e = LIB(json_object_get(model[idx].o));
					rc = LIB(json_object_array_put_idx(arr, idx, e));
					if (rc != 0)
					{
						if (!(g_alloc.fired || g_alloc.cap_refused))
							ctx.fail("C07:spurious-failure", "op %zu: put_idx of the element already stored at %zu failed", oi, idx);
						LIBV(json_object_put(e));
					}
					ctx.probe("put.same_element_again");
				}
			}
			else if (op.kind == "get")
			{
				size_t idx = (size_t)op.arg(0);
				rel = classify(idx);
				struct json_object *g = LIB(json_object_array_get_idx(arr, idx));
				struct json_object *want = idx < len ? model[idx].o : nullptr;
				if (g != want)
					ctx.fail("C07:element-mismatch", "op %zu: get_idx(%zu) on length %zu returned %s", oi, idx, len, typed_dump(g).c_str());
			}
			bool fault_failed = rc != 0 && !refused_ok && (g_alloc.fired || g_alloc.cap_refused);
			if (fault_failed && g_alloc.fired)
				ctx.probe("fault.growth_failed_unchanged");
			tally_faults(ctx);
			disarm_faults();
			// releases observed in this op == releases the model predicts
			std::vector<int64_t> d = destroyed, x = expect_destroyed;
			std::sort(d.begin(), d.end());
			std::sort(x.begin(), x.end());
			if (d != x)
				ctx.fail("C07:release-mismatch", "op %zu (%s): %zu element(s) were destroyed, the model expects %zu", oi, op.kind.c_str(), d.size(), x.size());
			ctx.log("op %zu %s rc=%d len=%zu rel=%s destroyed=%zu", oi, op.kind.c_str(), rc, model.size(), rel.c_str(), d.size());
			ctx.cover(op.kind + "|" + rel + "|" + (rc == 0 ? "ok" : refused_ok ? "refused" : "alloc-failed"));
			verify(op.kind.c_str(), oi);
		}
		// serialization sees the same sequence
		{
			std::string want = "[";
			for (size_t i = 0; i < model.size(); i++)
				want += std::string(i ? "," : "") + (model[i].o ? std::to_string(json_object_get_int64(model[i].o)) : std::string("null"));
			want += "]";
			std::string got = ser(arr, JSON_C_TO_STRING_PLAIN);
			if (got != want)
				ctx.fail("C07:serialization-mismatch", "array serialises as %s, model is %s", got.substr(0, 200).c_str(), want.substr(0, 200).c_str());
		}
		destroyed.clear();
		size_t alive = 0;
		for (auto &m : model)
			alive += m.o != nullptr;
		LIBV(json_object_put(arr));
		if (destroyed.size() != alive)
			ctx.fail("C07:teardown-release-mismatch", "destroying the array released %zu element(s), it held %zu", destroyed.size(), alive);
		if (!g_alloc.live.empty())
			ctx.fail("C07:leak@" + g_alloc.first_live_site(), "%zu allocation(s) remain after the array was destroyed:%s", g_alloc.live.size(),
			         g_alloc.describe_live().c_str());
	}
};
std::vector<int64_t> *C07::g_destroyed = nullptr;
REGISTER_PROPERTY(C07)
} // namespace
