// helpers around the incremental parser shared by C03 / C04 / C14 / C20
#pragma once
#include "common.h"
#include <map>

struct ParseResult
{
	int err = 0;             // enum json_tokener_error
	std::string dump;        // typed dump of the returned value ("<none>" when NULL was returned without success)
	bool has_value = false;  // non-NULL returned
	size_t end = 0;          // json_tokener_get_parse_end
	bool operator==(const ParseResult &o) const { return err == o.err && dump == o.dump && end == o.end && has_value == o.has_value; }
	std::string str() const
	{
		return std::string(json_tokener_error_desc((enum json_tokener_error)err)) + " end=" + std::to_string(end) + " value=" + (dump.size() > 200 ? dump.substr(0, 200) + "..." : dump);
	}
};

// one parse_ex call on exact-size bytes (len >= 0) ; returns the observable triple and releases the value
static inline ParseResult parse_call(struct json_tokener *tok, const std::string &bytes, bool nul_terminated_mode = false)
{
	ParseResult r;
	struct json_object *o;
	if (nul_terminated_mode)
	{
		// bytes must not contain NUL; passed as C string with len = -1
		std::string z = bytes;
		z.push_back('\0');
		ExactBuf b(z);
		o = LIB(json_tokener_parse_ex(tok, b.p, -1));
	}
	else
	{
		ExactBuf b(bytes);
		o = LIB(json_tokener_parse_ex(tok, b.p, (int)bytes.size()));
	}
	r.err = (int)json_tokener_get_error(tok);
	r.end = json_tokener_get_parse_end(tok);
	r.has_value = o != nullptr;
	r.dump = (r.err == json_tokener_success) ? typed_dump(o) : (o ? "<value-with-error:" + typed_dump(o) + ">" : "<none>");
	if (o)
		LIBV(json_object_put(o));
	return r;
}

static inline struct json_tokener *new_tok(int depth, int flags)
{
	struct json_tokener *t = LIB(json_tokener_new_ex(depth));
	if (t)
		LIBV(json_tokener_set_flags(t, flags));
	return t;
}

static inline ParseResult oneshot(const std::string &bytes, int flags, int depth)
{
	struct json_tokener *t = new_tok(depth, flags);
	ParseResult r = parse_call(t, bytes);
	LIBV(json_tokener_free(t));
	return r;
}

// Rough lexical context of a position in a text (statistics / coverage keys only; never part of an oracle).
struct LexCtx
{
	std::vector<std::string> at; // context class *before* byte i (i in 0..n)
	explicit LexCtx(const std::string &s)
	{
		at.resize(s.size() + 1);
		enum { TOP, STR, ESC, UNI, COMM_START, COMM_BLOCK, COMM_STAR, COMM_LINE, NUM, LIT } st = TOP;
		char quote = 0;
		int uni = 0, depth = 0, litlen = 0;
		bool after_high = false, key = false;
		unsigned cp = 0;
		char prev = 0;
		std::vector<char> stack;
		bool expect_key = false;
		for (size_t i = 0; i <= s.size(); i++)
		{
			std::string c;
			switch (st)
			{
			case TOP: c = depth ? "between" : "top"; break;
			case STR: c = std::string(key ? "name" : "string") + (after_high ? "+after-high-surrogate" : ""); break;
			case ESC: c = std::string("escape") + (after_high ? "+after-high-surrogate" : ""); break;
			case UNI: c = "unicode-digit-" + std::to_string(uni) + (after_high ? "+second-of-pair" : ""); break;
			case COMM_START: c = "comment-start"; break;
			case COMM_BLOCK: c = "comment-block"; break;
			case COMM_STAR: c = "comment-block-star"; break;
			case COMM_LINE: c = "comment-line"; break;
			case NUM: c = std::string("number-after-") + ((prev == 'e' || prev == 'E') ? "e" : prev == '-' ? "minus" : prev == '+' ? "plus" : prev == '.' ? "dot" : "digit"); break;
			case LIT: c = "literal-" + std::to_string(litlen > 8 ? 8 : litlen); break;
			}
			c += depth == 0 ? "|d0" : depth == 1 ? "|d1" : depth < 4 ? "|d2-3" : "|d4+";
			if (at[i].empty())
				at[i] = c;
			if (i == s.size())
				break;
			char ch = s[i];
			switch (st)
			{
			case TOP:
				if (ch == '"' || ch == '\'')
				{
					st = STR;
					quote = ch;
					key = expect_key;
					after_high = false;
				}
				else if (ch == '/')
					st = COMM_START;
				else if (ch == '{')
				{
					depth++;
					stack.push_back('{');
					expect_key = true;
				}
				else if (ch == '[')
				{
					depth++;
					stack.push_back('[');
					expect_key = false;
				}
				else if (ch == '}' || ch == ']')
				{
					if (depth > 0)
					{
						depth--;
						stack.pop_back();
					}
					expect_key = false;
				}
				else if (ch == ',')
					expect_key = !stack.empty() && stack.back() == '{';
				else if (ch == ':')
					expect_key = false;
				else if ((ch >= '0' && ch <= '9') || ch == '-')
				{
					st = NUM;
					prev = ch;
				}
				else if ((ch >= 'a' && ch <= 'z') || (ch >= 'A' && ch <= 'Z'))
				{
					st = LIT;
					litlen = 1;
				}
				break;
			case STR:
				if (ch == quote)
				{
					st = TOP;
					after_high = false;
				}
				else if (ch == '\\')
					st = ESC;
				else
					after_high = false;
				break;
			case ESC:
				if (ch == 'u')
				{
					st = UNI;
					uni = 0;
					cp = 0;
				}
				else
				{
					st = STR;
					after_high = false;
				}
				break;
			case UNI:
			{
				int v = (ch >= '0' && ch <= '9') ? ch - '0' : (ch >= 'a' && ch <= 'f') ? ch - 'a' + 10 : (ch >= 'A' && ch <= 'F') ? ch - 'A' + 10 : -1;
				if (v < 0)
				{
					st = STR;
					after_high = false;
					break;
				}
				cp = cp * 16 + (unsigned)v;
				if (++uni == 4)
				{
					st = STR;
					after_high = (cp & 0xfc00) == 0xd800;
				}
				break;
			}
			case COMM_START: st = ch == '*' ? COMM_BLOCK : ch == '/' ? COMM_LINE : TOP; break;
			case COMM_BLOCK:
				if (ch == '*')
					st = COMM_STAR;
				break;
			case COMM_STAR: st = ch == '/' ? TOP : ch == '*' ? COMM_STAR : COMM_BLOCK; break;
			case COMM_LINE:
				if (ch == '\n')
					st = TOP;
				break;
			case NUM:
				if ((ch >= '0' && ch <= '9') || ch == '.' || ch == 'e' || ch == 'E' || ch == '+' || ch == '-')
					prev = ch;
				else
				{
					st = TOP;
					i--; // re-scan this byte at top level
					continue;
				}
				break;
			case LIT:
				if ((ch >= 'a' && ch <= 'z') || (ch >= 'A' && ch <= 'Z'))
					litlen++;
				else
				{
					st = TOP;
					i--;
					continue;
				}
				break;
			}
		}
	}
};
