// C19 — the print buffer holds exactly what was written, NUL-terminated, in bounds.
// Simulated: histories of append / fast-append / literal append / fill / formatted print / reset / free+new on one
// printbuf, with allocation failures (growth realloc, vasprintf) and a finite-capacity allocator.
// Oracle: byte-vector model compared after every op; failed op => -1 and buffer, bpos, size unchanged.
#include "common.h"
#include <climits>
extern "C" {
#include "printbuf.h"
}

namespace
{
struct C19 : Property
{
	const char *id() const override { return "C19"; }
	const char *level() const override { return "exploration"; }
	uint64_t runs(Tier t) const override { return t == QUICK ? 300000 : 8000000; }
	std::string rule() const override
	{
		return "seeded histories (<=40 ops) of printbuf_memappend / printbuf_memappend_fast / printbuf_strappend / printbuf_memset / sprintbuf / "
		       "printbuf_reset / free+new with sizes drawn around the current free space, every doubling boundary, 0, negative and near INT_MAX; "
		       "odd run indices attach allocation failures to ops. A run is non-trivial if the buffer grew at least once or an op was refused; "
		       "distinct = distinct sets of coverage keys (op, end position vs capacity class, outcome).";
	}
	std::vector<std::string> assumptions() const override
	{
		return {"struct printbuf {buf,bpos,size} is public API and is read directly", "allocator refuses single requests above 64 MiB (finite memory)",
		        "ASan redzones make any write outside the allocation a crash-class violation"};
	}
	std::vector<std::string> probes() const override
	{
		return {"append.exact_fit", "append.one_over", "append.doubling_insufficient", "memset.beyond_end_zero_fill", "memset.ends_at_capacity",
		        "memset.inside", "sprintbuf.long_output", "refused.int_overflow", "refused.alloc_failure", "append_after_unterminated_memset", "sprintbuf.embedded_nul", "sprintbuf.argument_aliases_own_text"};
	}
	std::map<std::string, int64_t> cfg_defaults() const override { return {}; }

	Plan generate(Rng &r, Tier, uint64_t index) override
	{
		Plan p;
		bool faulted = (index & 1);
		p.cfg["faulted"] = faulted;
		int nops = (int)r.range(3, 40);
		// swarm: per-run subset of op kinds
		std::vector<std::string> kinds = {"append", "fast", "strappend", "memset", "sprintf", "reset", "renew", "huge"};
		std::vector<std::string> enabled;
		for (auto &k : kinds)
			if (r.chance(2, 3))
				enabled.push_back(k);
		if (enabled.empty())
			enabled.push_back("append");
		int64_t sim_bpos = 0, sim_size = 32; // rough prediction only used to aim sizes at boundaries
		for (int i = 0; i < nops; i++)
		{
			Op op;
			op.kind = r.pick(enabled);
			if (op.kind == "append" || op.kind == "fast")
			{
				int64_t room = sim_size - sim_bpos - 1;
				int64_t len;
				switch (r.below(8))
				{
				case 0: len = 0; break;
				case 1: len = room; break;
				case 2: len = room + 1; break;
				case 3: len = room - 1; break;
				case 4: len = 2 * sim_size - sim_bpos + r.range(-2, 12); break; // beyond one doubling
				case 5: len = r.range(1, 8); break;
				case 6: len = r.range(0, 300); break;
				default: len = room + r.range(-3, 3); break;
				}
				if (len < 0)
					len = 0;
				if (len > 5000)
					len = 5000;
				op.data = rand_bytes(r, (size_t)len);
				if (op.kind == "append" && r.chance(1, 25))
					op.a.push_back(-(int64_t)r.range(1, 3)); // negative size request
				sim_bpos += len;
			}
			else if (op.kind == "strappend")
				op.a.push_back((int64_t)r.below(6));
			else if (op.kind == "memset")
			{
				int64_t off;
				switch (r.below(7))
				{
				case 0: off = -1; break;
				case 1: off = sim_bpos; break;
				case 2: off = r.range(0, sim_bpos > 0 ? sim_bpos : 0); break;
				case 3: off = sim_bpos + r.range(1, 40); break;
				case 4: off = sim_size + r.range(-2, 2); break;
				case 5: off = -(int64_t)r.range(2, 5); break; // invalid
				default: off = r.range(0, sim_size * 2); break;
				}
				int64_t len;
				int64_t base = off < 0 ? sim_bpos : off;
				switch (r.below(6))
				{
				case 0: len = sim_size - base; break; // ends exactly at capacity
				case 1: len = sim_size - base + 1; break;
				case 2: len = 0; break;
				case 3: len = -(int64_t)r.range(1, 3); break;
				case 4: len = r.range(0, 300); break;
				default: len = r.range(0, 20); break;
				}
				op.a = {off, len, (int64_t)r.below(256)};
				if (len > 0 && base + len > sim_bpos)
					sim_bpos = base + len;
			}
			else if (op.kind == "sprintf")
			{
				int64_t which = (int64_t)r.below(5);
				int64_t len = r.chance(1, 3) ? r.range(120, 135) : (r.chance(1, 2) ? r.range(0, 60) : r.range(128, 600));
				op.a = {which, (int64_t)r.range(-100000, 100000)};
				op.data = rand_text(r, (size_t)len);
				for (auto &c : op.data)
					if (c == '%')
						c = 'p';
				sim_bpos += len;
			}
			else if (op.kind == "reset")
				sim_bpos = 0;
			else if (op.kind == "renew")
			{
				sim_bpos = 0;
				sim_size = 32;
			}
			else if (op.kind == "huge")
			{
				// size arguments near INT_MAX
				op.a = {(int64_t)r.below(3), (int64_t)r.range(0, 40)};
			}
			while (sim_size < sim_bpos + 1)
				sim_size *= 2;
			if (faulted && r.chance(1, 3))
			{
				Fault f;
				f.kind = "alloc";
				f.a = {(int64_t)r.below(2)};
				op.faults.push_back(f);
			}
			p.ops.push_back(op);
		}
		return p;
	}

	struct St
	{
		struct printbuf *pb = nullptr;
		std::string model;
		bool terminated = true; // false after a memset (which does not terminate)
	};

	void verify(RunCtx &ctx, St &s, const char *after, bool require_nul)
	{
		struct printbuf *pb = s.pb;
		if (pb->bpos != (int)s.model.size())
			ctx.fail("C19:length-mismatch", "after %s: bpos=%d but the model holds %zu bytes", after, pb->bpos, s.model.size());
		if (pb->bpos < 0 || pb->size <= 0 || pb->bpos > pb->size)
			ctx.fail("C19:out-of-bounds-state", "after %s: bpos=%d size=%d", after, pb->bpos, pb->size);
		if (memcmp(pb->buf, s.model.data(), s.model.size()) != 0)
		{
			size_t i = 0;
			while (i < s.model.size() && pb->buf[i] == s.model[i])
				i++;
			ctx.fail("C19:content-mismatch", "after %s: byte %zu is 0x%02x, model has 0x%02x (bpos=%d)", after, i, (unsigned char)pb->buf[i],
			         (unsigned char)s.model[i], pb->bpos);
		}
		if (require_nul)
		{
			if (pb->bpos >= pb->size)
				ctx.fail("C19:no-room-for-terminator", "after %s: bpos=%d size=%d", after, pb->bpos, pb->size);
			if (pb->buf[pb->bpos] != '\0')
				ctx.fail("C19:missing-terminator", "after %s: buf[bpos=%d]=0x%02x", after, pb->bpos, (unsigned char)pb->buf[pb->bpos]);
		}
	}

	void run(const Plan &p, RunCtx &ctx) override
	{
		St s;
		s.pb = LIB(printbuf_new());
		if (!s.pb)
			ctx.fail("C19:new-failed", "printbuf_new failed without an injected fault");
		verify(ctx, s, "new", true);
		// (the macro appends sizeof(literal)-1 bytes: a literal may contain NUL bytes)
		static const std::string lits[6] = {std::string(""), std::string("x"), std::string("null"), std::string("0123456789abcdefghijklmnopqrstuvwxyz"), std::string("ab\0cd", 5), std::string("\0", 1)};
		for (size_t oi = 0; oi < p.ops.size(); oi++)
		{
			const Op &op = p.ops[oi];
			struct printbuf *pb = s.pb;
			int old_bpos = pb->bpos, old_size = pb->size;
			char *old_buf = pb->buf;
			std::string before(pb->buf, (size_t)pb->bpos);
			arm_faults(op, ctx);
			int rc = 0;
			bool is_append = false, may_fail_fault = false;
			std::string what = op.kind;
			int64_t need = 0;
			std::string covrel;
			auto relation = [&](int64_t endpos_plus_nul) {
				// relation of the required size to the capacity before the op
				if (endpos_plus_nul < old_size)
					return "fits";
				if (endpos_plus_nul == old_size)
					return "exact";
				if (endpos_plus_nul == (int64_t)old_size + 1)
					return "one-over";
				if (endpos_plus_nul <= 2 * (int64_t)old_size)
					return "one-doubling";
				return "doubling-insufficient";
			};
			if (op.kind == "append" || op.kind == "fast" || op.kind == "strappend")
			{
				std::string data = op.kind == "strappend" ? lits[op.arg(0) % 6] : op.data;
				int reqsize = (int)data.size();
				bool negative = op.kind == "append" && !op.a.empty() && op.a[0] < 0;
				if (negative)
					reqsize = (int)op.a[0];
				need = (int64_t)old_bpos + (negative ? 0 : reqsize) + 1;
				covrel = relation(need);
				if (!s.terminated)
					ctx.probe("append_after_unterminated_memset");
				ExactBuf src(data);
				if (op.kind == "append")
					rc = LIB(printbuf_memappend(pb, src.p, reqsize));
				else if (op.kind == "fast")
				{
					int bs = reqsize;
					LibScope ls;
					// the macro is used with int and with unsigned lengths (strlen / sizeof results) by callers
					if ((old_bpos + reqsize) & 1)
					{
						size_t ubs = (size_t)reqsize;
#pragma GCC diagnostic push
#pragma GCC diagnostic ignored "-Wsign-compare"
						printbuf_memappend_fast(pb, src.p, ubs);
#pragma GCC diagnostic pop
					}
					else
						printbuf_memappend_fast(pb, src.p, bs);
					rc = (pb->bpos == old_bpos + bs) ? bs : -1;
					// the macro reports nothing: a zero-length request whose growth failed is a failed request
					if (bs == 0 && g_alloc.fired > 0 && pb->size == old_size)
						rc = -1;
				}
				else
				{
					LibScope ls;
					switch (op.arg(0) % 6)
					{
					case 0: rc = printbuf_strappend(pb, ""); break;
					case 1: rc = printbuf_strappend(pb, "x"); break;
					case 2: rc = printbuf_strappend(pb, "null"); break;
					case 3: rc = printbuf_strappend(pb, "0123456789abcdefghijklmnopqrstuvwxyz"); break;
					case 4: rc = printbuf_strappend(pb, "ab\0cd"); break;
					default: rc = printbuf_strappend(pb, "\0"); break;
					}
				}
				is_append = true;
				may_fail_fault = g_alloc.fired > 0 || g_alloc.cap_refused > 0;
				if (negative)
				{
					if (rc != -1)
						ctx.fail("C19:negative-size-accepted", "printbuf_memappend(size=%d) returned %d", reqsize, rc);
					ctx.probe("refused.int_overflow");
				}
				else if (rc >= 0)
				{
					if (rc != reqsize)
						ctx.fail("C19:wrong-return", "%s of %d bytes returned %d", op.kind.c_str(), reqsize, rc);
					s.model += data;
					s.terminated = true;
				}
				else if (!may_fail_fault)
					ctx.fail("C19:spurious-failure", "%s of %d bytes failed (bpos=%d size=%d) without an injected fault", op.kind.c_str(), reqsize, old_bpos, old_size);
				if (covrel == std::string("exact"))
					ctx.probe("append.exact_fit");
				if (covrel == std::string("one-over"))
					ctx.probe("append.one_over");
				if (covrel == std::string("doubling-insufficient"))
					ctx.probe("append.doubling_insufficient");
			}
			else if (op.kind == "memset")
			{
				int off = (int)op.arg(0), len = (int)op.arg(1), ch = (int)op.arg(2);
				int eff = off == -1 ? old_bpos : off;
				bool invalid = len < 0 || off < -1 || (int64_t)len > (int64_t)INT_MAX - eff;
				need = (int64_t)eff + len;
				covrel = invalid ? "invalid" : (need < old_size ? "fits" : need == old_size ? "exact" : need <= 2 * (int64_t)old_size ? "one-doubling" : "doubling-insufficient");
				rc = LIB(printbuf_memset(pb, off, ch, len));
				may_fail_fault = g_alloc.fired > 0 || g_alloc.cap_refused > 0;
				if (invalid)
				{
					if (rc != -1)
						ctx.fail("C19:invalid-memset-accepted", "printbuf_memset(offset=%d,len=%d) returned %d", off, len, rc);
					ctx.probe("refused.int_overflow");
				}
				else if (rc == 0)
				{
					size_t oldn = s.model.size();
					if ((size_t)eff > s.model.size())
					{
						s.model.resize((size_t)eff, '\0');
						ctx.probe("memset.beyond_end_zero_fill");
					}
					if (s.model.size() < (size_t)need)
						s.model.resize((size_t)need);
					else if (len > 0)
						ctx.probe("memset.inside");
					for (int k = 0; k < len; k++)
						s.model[(size_t)eff + (size_t)k] = (char)ch;
					if (need == pb->size)
						ctx.probe("memset.ends_at_capacity");
					if (s.model.size() > oldn)
						s.terminated = false; // printbuf_memset does not terminate what it adds
				}
				else if (rc == -1)
				{
					if (!may_fail_fault)
						ctx.fail("C19:spurious-failure", "printbuf_memset(offset=%d,len=%d) failed (bpos=%d size=%d) without an injected fault", off, len, old_bpos, old_size);
				}
				else
					ctx.fail("C19:wrong-return", "printbuf_memset returned %d", rc);
			}
			else if (op.kind == "sprintf")
			{
				std::string expect;
				char num[64];
				int which = (int)(op.arg(0) % 5);
				int val = (int)op.arg(1);
				const std::string &str = op.data;
				need = old_bpos + (int64_t)str.size() + 1;
				covrel = relation(need);
				if (which == 0)
				{
					expect = str;
					rc = LIB(sprintbuf(pb, "%s", str.c_str()));
				}
				else if (which == 1)
				{
					snprintf(num, sizeof num, "%d", val);
					expect = std::string(num) + ":" + str + "!";
					rc = LIB(sprintbuf(pb, "%d:%s!", val, str.c_str()));
				}
				else if (which == 2)
				{
					snprintf(num, sizeof num, "[%12d]", val);
					expect = str + num;
					rc = LIB(sprintbuf(pb, "%s[%12d]", str.c_str(), val));
				}
				else if (which == 4 && s.terminated)
				{
					// arguments that point into the buffer's own text (legal: the output is formatted aside and appended afterwards);
					// the text seen by %s is the C-string view of the current contents
					std::string cur(pb->buf); // up to the first NUL
					if (cur.size() > 400)
						cur.resize(0);
					expect = "<" + cur + "|" + cur + ">" + str;
					need = old_bpos + (int64_t)expect.size() + 1;
					covrel = relation(need);
					rc = cur.empty() && std::string(pb->buf).size() > 400 ? LIB(sprintbuf(pb, "<%s|%s>%s", "", "", str.c_str())) : LIB(sprintbuf(pb, "<%s|%s>%s", pb->buf, pb->buf, str.c_str()));
					ctx.probe("sprintbuf.argument_aliases_own_text");
				}
				else
				{
					// formatted output that contains a NUL byte (%c with 0): every byte counts, not only the C-string prefix
					char ch = (val & 3) == 0 ? '\0' : (char)('A' + (val & 15));
					size_t half = str.size() / 2;
					std::string a = str.substr(0, half), b = str.substr(half);
					expect = a + std::string(1, ch) + b;
					rc = LIB(sprintbuf(pb, "%s%c%s", a.c_str(), ch, b.c_str()));
					if (ch == '\0')
						ctx.probe("sprintbuf.embedded_nul");
				}
				if (expect.size() > 127)
					ctx.probe("sprintbuf.long_output");
				is_append = true;
				may_fail_fault = g_alloc.fired > 0 || g_alloc.cap_refused > 0;
				if (rc >= 0)
				{
					if (rc != (int)expect.size())
						ctx.fail("C19:wrong-return", "sprintbuf returned %d for %zu formatted bytes", rc, expect.size());
					s.model += expect;
					s.terminated = true;
				}
				else if (!may_fail_fault)
					ctx.fail("C19:spurious-failure", "sprintbuf of %zu bytes failed without an injected fault", expect.size());
			}
			else if (op.kind == "reset")
			{
				LIBV(printbuf_reset(pb));
				s.model.clear();
				s.terminated = true;
				is_append = true;
				covrel = "-";
			}
			else if (op.kind == "renew")
			{
				LIBV(printbuf_free(pb));
				s.pb = LIB(printbuf_new());
				covrel = "-";
				if (!s.pb)
				{
					if (g_alloc.fired == 0)
						ctx.fail("C19:new-failed", "printbuf_new failed without an injected fault");
					// an allocation failure while creating: nothing may be left behind
					if (!g_alloc.live.empty())
						ctx.fail("C19:leak@" + g_alloc.first_live_site(), "failed printbuf_new left %zu allocation(s):%s", g_alloc.live.size(), g_alloc.describe_live().c_str());
					disarm_faults();
					s.pb = LIB(printbuf_new());
					if (!s.pb)
						ctx.fail("C19:new-failed", "printbuf_new failed without an injected fault");
					ctx.probe("refused.alloc_failure");
				}
				s.model.clear();
				s.terminated = true;
				tally_faults(ctx);
				disarm_faults();
				ctx.log("op %zu renew", oi);
				ctx.cover("renew");
				verify(ctx, s, "renew", true);
				continue;
			}
			else if (op.kind == "huge")
			{
				int delta = (int)op.arg(1);
				int which = (int)op.arg(0) % 3;
				char one = 'h';
				covrel = "int-max";
				// every one of these would end beyond what a non-negative int / the finite memory can hold: must be refused
				if (which == 0)
					rc = LIB(printbuf_memappend(pb, &one, INT_MAX - delta));
				else if (which == 1)
					rc = LIB(printbuf_memset(pb, -1, 'z', INT_MAX - delta));
				else
					rc = LIB(printbuf_memset(pb, INT_MAX - delta, 'z', delta + 1 + (int)op.arg(1)));
				if (rc != -1)
					ctx.fail("C19:oversize-accepted", "request ending near INT_MAX (variant %d, delta %d) returned %d", which, delta, rc);
				ctx.probe("refused.int_overflow");
			}
			tally_faults(ctx);
			disarm_faults();
			bool failed = (rc == -1) && op.kind != "reset";
			if (failed)
			{
				// a refused or failed request leaves the buffer exactly as it was
				// (the contents and the length are what "unchanged" means to a caller; a refused request that already grew the
				//  allocation keeps them, so a larger capacity or a moved block is not an error - a smaller capacity is)
				(void)old_buf;
				if (pb->bpos != old_bpos || pb->size < old_size)
					ctx.fail("C19:failed-op-changed-buffer", "%s failed but bpos %d->%d size %d->%d", what.c_str(), old_bpos, pb->bpos, old_size, pb->size);
				if (memcmp(pb->buf, before.data(), before.size()) != 0)
					ctx.fail("C19:failed-op-changed-buffer", "%s failed but the contents changed", what.c_str());
				if (may_fail_fault)
					ctx.probe("refused.alloc_failure");
				ctx.nontrivial = true;
			}
			if (pb->size != old_size)
				ctx.nontrivial = true;
			ctx.log("op %zu %s rc=%d bpos=%d size=%d fired=%ld", oi, what.c_str(), rc, pb->bpos, pb->size, g_alloc.fired);
			ctx.cover(what + "|" + covrel + "|" + (failed ? "refused" : "ok") + (pb->size != old_size ? "|grew" : ""));
			verify(ctx, s, what.c_str(), is_append && !failed ? true : s.terminated);
		}
		LIBV(printbuf_free(s.pb));
		if (!g_alloc.live.empty())
			ctx.fail("C19:leak@" + g_alloc.first_live_site(), "after printbuf_free %zu allocation(s) remain:%s", g_alloc.live.size(),
			         g_alloc.describe_live().c_str());
	}
};
REGISTER_PROPERTY(C19)
} // namespace
