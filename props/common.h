// helpers shared by the property workloads
#pragma once
#include "../sim/core.h"
#include "../sim/dump.h"
#include "../sim/seams.h"
#include <cstring>
#include <string>
#include <vector>

// install the per-op fault script of the seams from the op's fault attachments
static inline void arm_faults(const Op &op, RunCtx &ctx)
{
	g_alloc.begin_op();
	g_loc.begin_op();
	g_fd.script.clear();
	g_fd.script_pos = 0;
	for (auto &f : op.faults)
	{
		if (f.kind == "alloc" && !f.a.empty())
		{
			g_alloc.fail_at.push_back((long)f.a[0]);
			ctx.count("fault.alloc.configured");
		}
		else if (f.kind == "dup")
		{
			g_loc.fail_dup_at = f.a.empty() ? 0 : (long)f.a[0];
			ctx.count("fault.duplocale.configured");
		}
		else if (f.kind == "newloc")
		{
			g_loc.fail_new_at = f.a.empty() ? 0 : (long)f.a[0];
			ctx.count("fault.newlocale.configured");
		}
		else if (f.kind == "io")
		{
			for (auto v : f.a)
				g_fd.script.push_back(v);
		}
		else if (f.kind == "openerr" && !f.a.empty())
		{
			g_fd.open_errno = (int)f.a[0];
			ctx.count("fault.open.configured");
		}
	}
}
static inline void tally_faults(RunCtx &ctx)
{
	if (g_alloc.fired)
		ctx.count("fault.alloc.fired", (uint64_t)g_alloc.fired);
	if (g_alloc.cap_refused)
		ctx.count("fault.alloc.capacity_refusal", (uint64_t)g_alloc.cap_refused);
	if (g_loc.fired)
		ctx.count("fault.locale.fired", (uint64_t)g_loc.fired);
}
static inline void disarm_faults()
{
	g_alloc.fail_at.clear();
	g_loc.fail_dup_at = g_loc.fail_new_at = -1;
	g_fd.script.clear();
	g_fd.script_pos = 0;
	g_fd.open_errno = 0;
}

// exact-size heap copy of a chunk (any read outside the bytes given is an ASan report)
struct ExactBuf
{
	char *base;
	char *p;
	explicit ExactBuf(const std::string &s)
	{
		if (s.empty())
		{
			base = (char *)malloc(1);
			base[0] = 'Z';
			p = base + 1; // points at the end of a 1-byte block
		}
		else
		{
			base = (char *)malloc(s.size());
			memcpy(base, s.data(), s.size());
			p = base;
		}
	}
	~ExactBuf() { free(base); }
	ExactBuf(const ExactBuf &) = delete;
};

static inline std::string errname(int e)
{
	return std::to_string(e);
}

// random bytes / text helpers
static inline std::string rand_bytes(Rng &r, size_t n)
{
	std::string s(n, '\0');
	for (auto &c : s)
		c = (char)r.below(256);
	return s;
}
static inline std::string rand_text(Rng &r, size_t n)
{
	static const char al[] = "abcdefghijklmnopqrstuvwxyzABCDEFGHIJKLMNOPQRSTUVWXYZ0123456789 _-/\\\"\n\t{}[],:.~";
	std::string s(n, '\0');
	for (auto &c : s)
		c = al[r.below(sizeof al - 1)];
	return s;
}
