// C20 — file-descriptor I/O is complete and exact under arbitrary short reads and writes.  (fault enumeration)
// Simulated: documents moved through the simulated fd layer (read/write/open/close behind -Wl,--wrap).  Per document and
// per-call transfer-size schedule (all-at-once, byte-at-a-time, seeded sizes) the unfaulted execution is run once, then
// re-executed with an error (EIO/EINTR/ENOSPC/EAGAIN/EBADF) injected at EVERY call index, with open() failures, and with every
// allocation inside the call failed in turn.
// Oracle, write side: bytes received == in-memory serialization on success; a strict prefix of it on an injected error
// (return -1 and a new retrievable message); to_file closes its descriptor exactly once on every path, to_fd never closes
// the caller's.  Read side: result == in-memory parse of the same bytes with the same depth limit; injected read error,
// parse error or open failure => NULL with a new message; nothing leaked, descriptors balanced.
#include "gen_json.h"
#include "tok_util.h"
#include <cerrno>
#include <unistd.h>
#include <fcntl.h>

namespace
{
struct C20 : Property
{
	const char *id() const override { return "C20"; }
	const char *level() const override { return "fault_enumeration"; }
	uint64_t runs(Tier t) const override { return t == QUICK ? 8000 : 300000; }
	std::string rule() const override
	{
		return "per run: one document (generated valid tree text up to ~12 KB so that reads span several 4096-byte buffers; for the read side also invalid, truncated and too-deep "
		       "texts), one API out of {json_object_to_fd, json_object_to_file, json_object_to_file_ext, json_object_from_fd, json_object_from_fd_ex, json_object_from_file}, "
		       "one serialization flag set / depth limit, one transfer-size schedule. Enumerated exhaustively per run: an injected errno at every read/write call index, "
		       "open() failures, every allocation index. evaluations = runs; steps.faulted_executions = re-executions. Non-trivial: the unfaulted execution needed >= 2 "
		       "transfers; distinct = distinct sets of (API, transfers bucket, error position class, errno, outcome) keys.";
	}
	std::vector<std::string> assumptions() const override
	{
		return {"write() never returns 0 for a non-empty request (a caller/OS contract json-c relies on)", "EINTR/EAGAIN are reported as failures by json-c; the oracle only requires failure to be reported, not retried",
		        "reference for the read side is json-c's own in-memory parse of the same bytes with the same depth (with or without the terminating NUL: bare top-level scalars differ)"};
	}
	std::vector<std::string> probes() const override
	{
		return {"read.exactly_buffer_size", "read.final_short_read_of_1", "read.multiple_buffers", "write.loop_more_than_one_iteration", "write.bytewise", "error.first_call", "error.middle_call",
		        "error.last_call", "open.failure", "alloc.failure_inside_from_fd", "alloc.failure_inside_to_fd", "parse.error_reported", "depth.limit_applied", "depth.limit_above_default_used", "to_file.closes_once_on_error", "write.failure_with_message", "read.descriptor_not_at_offset_0", "write.over_longer_existing_file"};
	}
	std::map<std::string, int64_t> cfg_defaults() const override { return {{"sched", 0}}; }

	Plan generate(Rng &r, Tier, uint64_t) override
	{
		Plan p;
		Op d;
		d.kind = "doc";
		GenOpts go;
		go.weird = false;
		go.max_depth = (int)r.range(1, 5);
		go.max_width = (int)r.range(1, 5);
		go.size_budget = (int)r.range(5, 300);
		JsonGen g(r, go);
		g.value(0);
		std::string text = g.out;
		int api = (int)r.below(6);
		bool read_side = api >= 3;
		// size classes: small, around the 4096-byte read buffer, exact multiples of it, several buffers
		switch (r.below(7))
		{
		case 0:
		case 1: break;
		case 2: text = "[" + text + ",\"" + std::string((size_t)r.range(4000, 4200), 'p') + "\"]"; break;
		case 3: text = "[" + text + ",\"" + std::string((size_t)r.range(8100, 8300), 'q') + "\"]"; break;
		case 4: text = "{\"a\":" + text + ",\"b\":[" + std::string((size_t)r.range(1, 3000), '1') + "]}"; break;
		case 5: text = "[\"" + std::string(4096 * (size_t)r.range(1, 2) - 4, 'e') + "\"]"; break; // exact multiple of the buffer
		default: text = "[\"" + std::string(4096 * (size_t)r.range(1, 2) - 4 + (size_t)r.range(1, 2), 'o') + "\"]"; break; // one or two bytes over
		}
		if (read_side && r.chance(1, 4))
		{
			Rng r2(r.next());
			text = mutate_text(r2, text, (int)r.range(1, 3));
		}
		if (read_side && r.chance(1, 10))
			text = std::string((size_t)r.range(2, 40), '[') + "1";
		bool deep_doc = false;
		if (read_side && r.chance(1, 8))
		{
			// well-formed document nested around and beyond the default limit of 32, for configured limits above it
			size_t n = (size_t)r.range(28, 66);
			text = std::string(n, '[') + "7" + std::string(n, ']');
			deep_doc = true;
		}
		if (read_side && r.chance(1, 8))
			text = r.pick(std::vector<std::string>{"123", "true", "\"s\"", "null", "1.5", " 7 "});
		// bytes that are not well-formed UTF-8 (the default parser accepts them: so must the descriptor entry points)
		if (read_side && r.chance(1, 10))
			text = r.pick(std::vector<std::string>{"[\"caf\xe9\"]", "{\"k\":\"\xff\xfe\"}", "[\"\xe2\x82\",1]", "\"\x80\""});
		d.data = text;
		p.ops.push_back(d);
		Op t;
		t.kind = "io";
		static const int serflags[] = {0, 1, 2, 3, 2 | 8, 16, 8, 1 | 8, 4, 32, 1 | 2 | 4 | 8 | 16, 63};
		int64_t arg1 = read_side ? (deep_doc ? (r.chance(1, 4) ? -1 : (int64_t)r.range(30, 64)) : (r.chance(1, 2) ? -1 : (int64_t)r.range(1, 8))) : serflags[r.below(12)];
		if (deep_doc && api == 3 && r.chance(1, 2))
			api = 4; // the depth argument only exists on json_object_from_fd_ex
		// errno is a hidden input of the calling thread: whatever an earlier, unrelated call left there must not matter
		static const int stale[] = {0, 0, EINTR, EAGAIN, ENOMEM, EIO, EBADF};
		t.a = {api, arg1, (int64_t)r.below(4), (int64_t)r.below(100000), stale[r.below(7)], (int64_t)(r.below(3) == 0), (int64_t)(r.chance(1, 3) ? r.below(64) : 0)}; // last but one: the descriptor is a pipe (fstat size 0, lseek ESPIPE) instead of a regular file
		p.ops.push_back(t);
		return p;
	}

	// transfer-size schedule for `ncalls` calls
	static std::vector<int64_t> schedule(int kind, uint64_t seed, size_t ncalls_hint)
	{
		std::vector<int64_t> s;
		Rng r(seed + 5);
		switch (kind % 4)
		{
		case 0: break; // as much as asked
		case 1:
			for (size_t i = 0; i < ncalls_hint; i++)
				s.push_back(1);
			break;
		case 2:
			for (size_t i = 0; i < 64; i++)
				s.push_back(r.chance(1, 3) ? 0 : (int64_t)r.pick(std::vector<int>{1, 2, 7, 100, 1000, 4095, 4096}));
			break;
		default:
			for (size_t i = 0; i < 64; i++)
				s.push_back((int64_t)r.range(1, 600));
			break;
		}
		return s;
	}

	struct Exec
	{
		bool ran = false, failed = false;
		std::string result;   // read side: typed dump / "NULL"; write side: rc
		std::string file;     // write side: bytes received
		long ncalls = 0;      // read()/write() calls made inside the operation
		long nalloc = 0, fired = 0, injected = 0;
		std::string kind;
		std::string errmsg;
	};

	[[noreturn]] void bad(RunCtx &ctx, const std::string &what, const Exec &e, const std::vector<Fault> &faults, const char *fmt, ...) __attribute__((format(printf, 6, 7)))
	{
		char buf[1500];
		va_list ap;
		va_start(ap, fmt);
		vsnprintf(buf, sizeof buf, fmt, ap);
		va_end(ap);
		ctx.refine_op = 1;
		ctx.refine_faults = faults;
		std::string fs;
		for (auto &f : faults)
		{
			fs += f.kind + "(";
			for (size_t i = 0; i < f.a.size() && i < 12; i++)
				fs += (i ? "," : "") + std::to_string(f.a[i]);
			fs += ") ";
		}
		ctx.fail("C20:" + what + "@" + e.kind, "%s with %s: %s", e.kind.c_str(), fs.empty() ? "no fault" : fs.c_str(), buf);
	}

	Exec exec(const Plan &p, const std::vector<Fault> &faults, const Exec *base, RunCtx &ctx)
	{
		Exec e;
		if (p.ops.size() < 2 || p.ops[0].kind != "doc" || p.ops[1].kind != "io")
			return e;
		const std::string &text = p.ops[0].data;
		const Op &op = p.ops[1];
		int api = (int)(op.arg(0) % 6);
		static const char *names[6] = {"to_fd", "to_file", "to_file_ext", "from_fd", "from_fd_ex", "from_file"};
		e.kind = names[api];
		g_fd.reset_run();
		g_fd.as_fifo = op.arg(5) == 1;
		// file names are data: one that contains printf conversions must come out of every message path unharmed (a message built
		// by using the name as a format string reads or writes through garbage pointers)
		// ... and one that is long (the message buffer is finite: the message may be truncated, not dropped)
		static const std::string long_name(230, 'n');
		std::string in_path_s = (op.arg(6) & 8) ? "/jsim/" + long_name + "-in.json" : (op.arg(6) & 1) ? "/jsim/in%s%n%d.json" : "/jsim/in.json";
		std::string out_path_s = (op.arg(6) & 8) ? "/jsim/" + long_name + "-out.json" : (op.arg(6) & 1) ? "/jsim/out%s%n%5$s.json" : "/jsim/out.json";
		const char *in_path = in_path_s.c_str(), *out_path = out_path_s.c_str();
		// the process may have closed its stdin: the library's own open() then returns descriptor 0, a valid descriptor
		g_fd.lowest_free_is_zero = (op.arg(6) & 32) && (api == 1 || api == 2 || api == 5);
		// sentinel message so that "a new message" is observable
		(void)LIB(json_object_to_fd(1, nullptr, 0)); // documented failure: sets "json_object_to_fd: object is null"
		std::string sentinel = json_util_get_last_err() ? json_util_get_last_err() : "";
		Op armed;
		armed.faults = faults;
		if (api < 3)
		{
			// ---------------------------------------------------------------- write side
			std::string t = text;
			t.push_back('\0');
			struct json_tokener *tok = new_tok(64, 0);
			ExactBuf b(t);
			struct json_object *obj = LIB(json_tokener_parse_ex(tok, b.p, (int)t.size()));
			LIBV(json_tokener_free(tok));
			if (!obj)
				return e; // document not usable for the write side (shrunk text)
			int flags = (int)op.arg(1) & 63;
			if (api == 1)
				flags = JSON_C_TO_STRING_PLAIN;
			// expected bytes from a separate copy, so that the tree under test still has to allocate its own print buffer
			struct json_object *cp = nullptr;
			LIB(json_object_deep_copy(obj, &cp, nullptr));
			// json_util.h defines the written bytes as what json_object_to_json_string_ext() returns for the same flags
			const char *exp_c = LIB(json_object_to_json_string_ext(cp ? cp : obj, flags));
			std::string expected = exp_c ? exp_c : "<NULL-RESULT>";
			if (cp)
				LIBV(json_object_put(cp));
			std::string before = text;
			int fd = -1;
			// the file may exist already and be longer than what is written now: the write replaces it, no old tail may survive
			std::string preexisting;
			if ((op.arg(6) & 16) && api != 0)
			{
				preexisting = std::string(expected.size() + 7 + (size_t)(op.arg(3) % 50), 'Z');
				g_fd.files[out_path] = preexisting;
				ctx.probe("write.over_longer_existing_file");
			}
			if (api == 0)
				fd = g_fd.open_sim(out_path, false, true, true, true);
			e.ran = true;
			arm_faults(armed, ctx);
			int rc;
			errno = (int)op.arg(4, 0);
			if (api == 0)
				rc = LIB(json_object_to_fd(fd, obj, flags));
			else if (api == 1)
				rc = LIB(json_object_to_file(out_path, obj));
			else
				rc = LIB(json_object_to_file_ext(out_path, obj, flags));
			e.ncalls = g_fd.writes;
			e.nalloc = g_alloc.op_count;
			e.fired = g_alloc.fired;
			e.injected = g_fd.injected;
			tally_faults(ctx);
			disarm_faults();
			e.failed = rc != 0;
			e.result = "rc=" + std::to_string(rc);
			e.file = g_fd.files.count(out_path) ? g_fd.files[out_path] : std::string("<no file>");
			const char *msg = json_util_get_last_err();
			e.errmsg = msg ? msg : "";
			if (rc == 0)
			{
				if (e.file != expected)
				{
					size_t i = 0;
					while (i < e.file.size() && i < expected.size() && e.file[i] == expected[i])
						i++;
					bad(ctx, "wrong-bytes-written", e, faults, "reported success but the descriptor received %zu bytes, the serialization has %zu; first difference at offset %zu", e.file.size(),
					    expected.size(), i);
				}
			}
			else
			{
				if (rc != -1)
					bad(ctx, "bad-failure-channel", e, faults, "returned %d", rc);
				if (!(e.injected || e.fired))
					bad(ctx, "spurious-failure", e, faults, "failed although no fault was injected");
				if (e.file != "<no file>" && !(!preexisting.empty() && e.file == preexisting)) // (an open() that failed leaves an existing file as it was)
				{
					if (e.file.size() > expected.size() || expected.compare(0, e.file.size(), e.file) != 0)
						bad(ctx, "wrong-bytes-written", e, faults, "after the failure the descriptor holds %zu bytes that are not a prefix of the serialization", e.file.size());
					if (e.file.size() == expected.size() && e.injected && !expected.empty())
						bad(ctx, "failure-after-complete-write", e, faults, "all %zu bytes were delivered and yet a write error was reported", expected.size());
				}
				// (the property asks for a retrievable message on the read side only; on the write side the return value is the channel)
				if (e.injected && !(e.errmsg.empty() || e.errmsg == sentinel))
					ctx.probe("write.failure_with_message");
			}
			// descriptor accounting
			if (api == 0)
			{
				if (!g_fd.fds[fd].open || g_fd.closes != 0)
					bad(ctx, "closed-callers-descriptor", e, faults, "json_object_to_fd closed the caller's descriptor");
				close(fd);
			}
			else
			{
				if (g_fd.open_count() != 0)
					bad(ctx, "descriptor-leak", e, faults, "%d descriptor(s) left open by %s", g_fd.open_count(), e.kind.c_str());
				if (g_fd.bad_close)
					bad(ctx, "double-close", e, faults, "%s closed a descriptor twice", e.kind.c_str());
				if (e.failed && g_fd.closes == 1)
					ctx.probe("to_file.closes_once_on_error");
			}
			if (!g_fd.events.empty())
				bad(ctx, "fd-misuse", e, faults, "%s", g_fd.events[0].c_str());
			if (ser(obj, flags) != expected && !(e.fired))
				bad(ctx, "altered-tree", e, faults, "the tree serialises differently after being written");
			LIBV(json_object_put(obj));
		}
		else
		{
			// ---------------------------------------------------------------- read side
			// a descriptor is read from its CURRENT offset (documented for json_object_from_fd): bytes before it are not part of the document
			static const char *prefixes[3] = {"", "[1,2] ", "}}x\"\\"};
			std::string prefix = api != 5 ? prefixes[(op.arg(6) >> 1) % 3] : "";
			g_fd.files[in_path] = prefix + text;
			int depth = (int)op.arg(1, -1);
			if (depth == 0 || depth < -1)
				depth = -1;
			if (depth > 64)
				depth = 64;
			int eff_depth = (api == 4 && depth != -1) ? depth : JSON_TOKENER_DEFAULT_DEPTH;
			int fd = -1;
			if (api != 5)
				fd = g_fd.open_sim(in_path, true, false, false, false);
			if (fd >= 0 && !prefix.empty())
			{
				g_fd.fds[fd].pos = prefix.size();
				ctx.probe("read.descriptor_not_at_offset_0");
			}
			e.ran = true;
			arm_faults(armed, ctx);
			struct json_object *o;
			errno = (int)op.arg(4, 0);
			if (api == 3)
				o = LIB(json_object_from_fd(fd));
			else if (api == 4)
				o = LIB(json_object_from_fd_ex(fd, depth));
			else
				o = LIB(json_object_from_file(in_path));
			e.ncalls = g_fd.reads;
			e.nalloc = g_alloc.op_count;
			e.fired = g_alloc.fired;
			e.injected = g_fd.injected;
			tally_faults(ctx);
			disarm_faults();
			e.failed = o == nullptr;
			e.result = o ? typed_dump(o) : std::string("NULL");
			const char *msg = json_util_get_last_err();
			e.errmsg = msg ? msg : "";
			if (g_fd.full_buffer_reads)
				ctx.probe("read.exactly_buffer_size");
			if (g_fd.reads > 2)
				ctx.probe("read.multiple_buffers");
			// reference: the same bytes parsed from memory in one call with the same depth limit
			ParseResult ref1 = oneshot(text, 0, eff_depth);
			ParseResult ref2 = oneshot(text + std::string(1, '\0'), 0, eff_depth);
			std::string r1 = ref1.err == json_tokener_success && ref1.has_value ? ref1.dump : std::string("NULL");
			std::string r2 = ref2.err == json_tokener_success && ref2.has_value ? ref2.dump : std::string("NULL");
			if (ref1.err == json_tokener_error_depth)
				ctx.probe("depth.limit_applied");
			if (eff_depth > JSON_TOKENER_DEFAULT_DEPTH && ref1.err == json_tokener_success)
				ctx.probe("depth.limit_above_default_used");
			if (!(e.injected || e.fired))
			{
				if (e.result != r1 && e.result != r2)
					bad(ctx, "wrong-result", e, faults, "read gives %s; parsing the same %zu bytes from memory (depth %d) gives %s", e.result.substr(0, 200).c_str(), text.size(), eff_depth,
					    r1.substr(0, 200).c_str());
				if (e.failed)
					ctx.probe("parse.error_reported");
			}
			else if (!e.failed)
			{
				// a fault was injected but the call still produced a value: it must be the right one
				if (e.result != r1 && e.result != r2)
					bad(ctx, "wrong-result", e, faults, "a fault was injected, the call returned %s instead of failing or returning %s", e.result.substr(0, 200).c_str(), r1.substr(0, 200).c_str());
				bool transient_only = true;
				for (auto &f : faults)
					if (f.kind == "io")
						for (auto v : f.a)
							if (v < 0 && v != -EINTR && v != -EAGAIN)
								transient_only = false;
				if (e.injected && !transient_only)
					bad(ctx, "read-error-ignored", e, faults, "read() failed with an injected errno and the call still returned a value");
			}
			if (e.failed && (e.errmsg.empty() || e.errmsg == sentinel))
				bad(ctx, "no-error-message", e, faults, "NULL returned without a new json_util_get_last_err() message");
			if (o)
				LIBV(json_object_put(o));
			if (api != 5)
			{
				if (!g_fd.fds[fd].open || g_fd.closes != 0)
					bad(ctx, "closed-callers-descriptor", e, faults, "%s closed the caller's descriptor", e.kind.c_str());
				close(fd);
			}
			else
			{
				if (g_fd.open_count() != 0)
					bad(ctx, "descriptor-leak", e, faults, "json_object_from_file left %d descriptor(s) open", g_fd.open_count());
				if (g_fd.bad_close)
					bad(ctx, "double-close", e, faults, "json_object_from_file closed a descriptor twice");
			}
			if (!g_fd.events.empty())
				bad(ctx, "fd-misuse", e, faults, "%s", g_fd.events[0].c_str());
		}
		(void)base;
		if (!g_alloc.live.empty())
		{
			std::string site = g_alloc.first_live_site();
			std::string desc = g_alloc.describe_live();
			size_t n = g_alloc.live.size();
			g_alloc.live.clear();
			ctx.refine_op = 1;
			ctx.refine_faults = faults;
			ctx.fail("C20:leak@" + site, "%s: %zu allocation(s) never released:%s", e.kind.c_str(), n, desc.c_str());
		}
		return e;
	}

	void run(const Plan &p, RunCtx &ctx) override
	{
		if (p.ops.size() < 2)
			return;
		const Op &op = p.ops[1];
		if (!op.faults.empty())
		{
			// explicit replay of one faulted execution
			Exec e = exec(p, op.faults, nullptr, ctx);
			ctx.log("%s explicit -> %s", e.kind.c_str(), e.result.substr(0, 60).c_str());
			return;
		}
		bool read_side = (op.arg(0) % 6) >= 3;
		size_t hint = p.ops[0].data.size() * 2 + 16;
		std::vector<int64_t> sched = schedule((int)op.arg(2), (uint64_t)op.arg(3), hint);
		Fault sf;
		sf.kind = "io";
		sf.a = sched;
		std::vector<Fault> basef;
		if (!sched.empty())
			basef.push_back(sf);
		Exec base = exec(p, basef, nullptr, ctx);
		if (!base.ran)
			return;
		ctx.count("steps.unfaulted_executions");
		ctx.log("%s sched=%lld calls=%ld allocs=%ld -> %s", base.kind.c_str(), (long long)(op.arg(2) % 4), base.ncalls, base.nalloc, base.result.substr(0, 60).c_str());
		if (base.ncalls >= 2)
			ctx.nontrivial = true;
		if (!read_side && base.ncalls > 1)
			ctx.probe("write.loop_more_than_one_iteration");
		if (!read_side && (op.arg(2) % 4) == 1 && base.ncalls > 2)
			ctx.probe("write.bytewise");
		std::string bucket = base.ncalls <= 1 ? "1" : base.ncalls <= 3 ? "2-3" : base.ncalls <= 16 ? "4-16" : "17+";
		ctx.cover(base.kind + "|calls" + bucket + "|unfaulted|" + (base.failed ? "fails" : "ok"));
		// (b) an injected errno at every call index
		static const int errnos[] = {EIO, EINTR, ENOSPC, EAGAIN, EBADF};
		long ncalls = base.ncalls > 200 ? 200 : base.ncalls; // long byte-wise schedules: first 200 call indices
		for (long i = 0; i < ncalls; i++)
		{
			std::vector<int64_t> s2 = sched;
			if ((long)s2.size() <= i)
				s2.resize((size_t)i + 1, 0);
			int en = errnos[(size_t)(i + op.arg(3)) % 5];
			s2[(size_t)i] = -en;
			Fault f;
			f.kind = "io";
			f.a = s2;
			Exec e = exec(p, {f}, &base, ctx);
			ctx.count("steps.faulted_executions");
			ctx.count("fault.io_errno.configured");
			if (e.injected)
				ctx.count("fault.io_errno.fired");
			// EINTR / EAGAIN are transient: json-c reports them as failures today, an implementation that retries and then delivers
			// exactly the right bytes / value is equally within the property (exec() has already verified the bytes or the value)
			bool transient = en == EINTR || en == EAGAIN;
			if (!e.failed && e.injected && !transient)
			{
				ctx.refine_op = 1;
				ctx.refine_faults = {f};
				ctx.fail("C20:io-error-ignored@" + e.kind, "%s: errno %d injected at call %ld of %ld and the call reported success", e.kind.c_str(), en, i, base.ncalls);
			}
			std::string posn = i == 0 ? "first" : i == base.ncalls - 1 ? "last" : "middle";
			ctx.probe("error." + posn + "_call");
			ctx.cover(base.kind + "|calls" + bucket + "|err-" + posn + "|e" + std::to_string(en) + "|" + (e.failed ? "failed" : "ok"));
			if (read_side && i == base.ncalls - 1 && base.ncalls >= 2)
				ctx.probe("read.final_short_read_of_1");
		}
		// (c) open failures
		if ((op.arg(0) % 6) == 1 || (op.arg(0) % 6) == 2 || (op.arg(0) % 6) == 5)
		{
			static const int oerr[] = {ENOENT, EACCES, EMFILE};
			for (int k = 0; k < 3; k++)
			{
				Fault f;
				f.kind = "openerr";
				f.a = {oerr[k]};
				std::vector<Fault> fs = basef;
				fs.push_back(f);
				Exec e = exec(p, fs, &base, ctx);
				ctx.count("steps.faulted_executions");
				ctx.count("fault.open.fired");
				if (!e.failed)
				{
					ctx.refine_op = 1;
					ctx.refine_faults = fs;
					ctx.fail("C20:open-failure-ignored@" + e.kind, "%s: open() failed with errno %d and the call reported success", e.kind.c_str(), oerr[k]);
				}
				ctx.probe("open.failure");
				ctx.cover(base.kind + "|open-e" + std::to_string(oerr[k]) + "|failed");
			}
		}
		// (d) every allocation inside the call
		for (long k = 0; k < base.nalloc && k < 64; k++)
		{
			Fault f;
			f.kind = "alloc";
			f.a = {k};
			std::vector<Fault> fs = basef;
			fs.push_back(f);
			Exec e = exec(p, fs, &base, ctx);
			ctx.count("steps.faulted_executions");
			ctx.probe(read_side ? "alloc.failure_inside_from_fd" : "alloc.failure_inside_to_fd");
			ctx.cover(base.kind + "|alloc-fault|" + (e.failed ? "failed" : "ok"));
			if (!read_side && !e.failed && e.file != base.file)
			{
				ctx.refine_op = 1;
				ctx.refine_faults = fs;
				ctx.fail("C20:wrong-bytes-written@" + e.kind, "allocation %ld failed, the call reported success but wrote different bytes", k);
			}
		}
	}
};
REGISTER_PROPERTY(C20)
} // namespace
