// C11 — strings are length-counted byte sequences preserved through any mutation history.
// Simulated: histories on up to three string nodes: new_string / new_string_len / set_string / set_string_len with
// lengths 0,1,7,8,9, around the previous length and large, bytes incl. NUL and non-UTF-8; interleaved reads, equality,
// deep copy, serialization round trip, put.  Faulted batch: the single malloc inside a growing set fails.
// Oracle: byte-vector model per node; a failed set returns 0 and leaves the previous bytes; ASan + live-allocation
// accounting for the inline <-> heap transitions.
#include "tok_util.h"
#include <climits>

namespace
{
struct C11 : Property
{
	const char *id() const override { return "C11"; }
	const char *level() const override { return "exploration"; }
	uint64_t runs(Tier t) const override { return t == QUICK ? 200000 : 6000000; }
	std::string rule() const override
	{
		return "seeded histories (<=40 ops) over <=3 string nodes: json_object_new_string(_len), set_string, set_string_len (lengths 0,1,6..9,15..17, previous length +-1, "
		       "up to 5000; lengths >= INT_MAX-1), get_string(_len), json_object_equal against a freshly built node, deep_copy, serialize+re-parse round trip, put; "
		       "odd run indices fail the allocation inside a set. A run is non-trivial if a node changed representation (inline->heap or heap reuse) or a set failed; "
		       "distinct = distinct sets of (op, old-vs-new length class, inline-room class, outcome) keys.";
	}
	std::vector<std::string> assumptions() const override
	{
		return {"set_string (strlen-based) truncates at the first NUL as documented; the length-counted variants keep every byte", "the serialization check is a round trip through json-c's own parser (escaping rules themselves are C02, not claimed)"};
	}
	std::vector<std::string> probes() const override
	{
		return {"set.grow_from_inline_to_heap", "set.grow_heap_to_bigger_heap", "set.shrink_within_heap", "set.shrink_within_inline", "set.to_zero_length_from_heap", "set.same_length",
		        "set.embedded_nul", "set.non_utf8", "set.refused_length", "set.alloc_failed_contents_kept", "roundtrip.with_nul", "copy.of_heap_string", "copy.mutated_original_checked", "strlen_variant_truncates", "serialize.colour_flag", "set.from_own_serialization", "set.from_slice_of_own_contents", "set.truncate_through_own_pointer", "set.strlen_setter_with_own_pointer"};
	}

	static std::string gen_bytes(Rng &r, size_t prev)
	{
		size_t len;
		switch (r.below(10))
		{
		case 0: len = 0; break;
		case 1: len = 1; break;
		case 2: len = (size_t)r.range(6, 9); break;
		case 3: len = (size_t)r.range(15, 17); break;
		case 4: len = prev; break;
		case 5: len = prev + 1; break;
		case 6: len = prev ? prev - 1 : 0; break;
		case 7: len = (size_t)r.range(20, 300); break;
		case 8: len = r.chance(1, 10) ? (size_t)r.range(1000, 5000) : (size_t)r.range(0, 12); break;
		default: len = (size_t)r.range(0, 40); break;
		}
		// one in eight contents is the text of a number (the coercing accessors then have something to say, in every storage mode)
		if (r.chance(1, 8))
		{
			static const char *nums[] = {"7", "-17", "12345", "18446744073709551615", "9223372036854775807", "-9223372036854775808", "1.5e3", "0.25", "000123456789012", "  42", "12abc", "1e400"};
			std::string n = nums[r.below(12)];
			if (r.chance(1, 3))
				n = std::string((size_t)r.range(1, 20), '0') + n; // long enough to leave the inline storage
			return n;
		}
		std::string s(len, '\0');
		int style = (int)r.below(4);
		for (auto &c : s)
		{
			if (style == 0)
				c = (char)('a' + r.below(26));
			else if (style == 1)
				c = (char)r.below(256);
			else if (style == 2)
				c = r.chance(1, 6) ? '\0' : (char)r.range(0x20, 0x7e);
			else
				c = "\"\\/\b\f\n\r\t\x01\x7f\x80\xc3\xa9\xff z"[r.below(17)];
		}
		return s;
	}

	Plan generate(Rng &r, Tier, uint64_t index) override
	{
		Plan p;
		bool faulted = index & 1;
		p.cfg["faulted"] = faulted;
		int nops = (int)r.range(3, 40);
		size_t prev[3] = {0, 0, 0};
		for (int i = 0; i < nops; i++)
		{
			Op op;
			int node = (int)r.below(3);
			switch (r.below(10))
			{
			case 0:
				op.kind = "new";
				op.a = {node, (int64_t)r.below(2)};
				op.data = gen_bytes(r, prev[node]);
				prev[node] = op.data.size();
				break;
			case 1:
			case 2:
			case 3:
			case 4:
				op.kind = "set";
				op.a = {node, (int64_t)r.below(2)};
				op.data = gen_bytes(r, prev[node]);
				prev[node] = op.data.size();
				break;
			case 5:
				if (r.chance(1, 2))
				{
					op.kind = "selfsrc";
					op.a = {node, (int64_t)r.below(4), (int64_t)r.below(1000), (int64_t)r.below(1000)};
					prev[node] = 8; // unknown afterwards
					break;
				}
				op.kind = "badlen";
				op.a = {node, (int64_t)INT_MAX - (int64_t)r.below(2)}; // a length no 4-byte source and no allocator can satisfy
				break;
			case 6: op.kind = "copy"; op.a = {node}; break;
			case 7: op.kind = "roundtrip"; op.a = {node, (int64_t)r.below(4)}; break;
			case 8: op.kind = "equal"; op.a = {node, (int64_t)r.below(3)}; break;
			default: op.kind = "put"; op.a = {node}; break;
			}
			if (faulted && op.kind == "set" && r.chance(1, 2))
			{
				Fault f;
				f.kind = "alloc";
				f.a = {0};
				op.faults.push_back(f);
			}
			p.ops.push_back(op);
		}
		return p;
	}

	struct Node
	{
		struct json_object *o = nullptr;
		std::string bytes;
		bool heap_guess = false; // did a set ever exceed the room the node was created with? (statistics only)
		size_t created_len = 0;
	};

	void verify(RunCtx &ctx, Node &n, size_t oi, const char *after, bool deep = true)
	{
		if (!n.o)
			return;
		int len = LIB(json_object_get_string_len(n.o));
		if (len != (int)n.bytes.size())
			ctx.fail("C11:length-mismatch", "op %zu (%s): get_string_len = %d, model holds %zu bytes", oi, after, len, n.bytes.size());
		const char *s = LIB(json_object_get_string(n.o));
		if (!s)
			ctx.fail("C11:null-string", "op %zu (%s): get_string returned NULL", oi, after);
		if (memcmp(s, n.bytes.data(), n.bytes.size()) != 0)
		{
			size_t i = 0;
			while (i < n.bytes.size() && s[i] == n.bytes[i])
				i++;
			ctx.fail("C11:content-mismatch", "op %zu (%s): byte %zu is 0x%02x, model has 0x%02x (length %zu)", oi, after, i, (unsigned char)s[i], (unsigned char)n.bytes[i], n.bytes.size());
		}
		if (s[n.bytes.size()] != '\0')
			ctx.fail("C11:missing-terminator", "op %zu (%s): byte after the %zu content bytes is 0x%02x", oi, after, n.bytes.size(), (unsigned char)s[n.bytes.size()]);
		// "preserved through any mutation history": whatever is read from the node - also through the coercing accessors and the
		// serializer flags - must be what a string node created directly with these bytes gives (the storage mode reached by the
		// history must not show)
		if (!deep)
			return;
		disarm_faults();
		struct json_object *twin = LIB(json_object_new_string_len(n.bytes.data(), (int)n.bytes.size()));
		if (twin)
		{
			auto obs = [&](struct json_object *o) {
				std::string r;
				errno = 0;
				r += "bool=" + std::to_string(LIB(json_object_get_boolean(o)));
				r += ";int=" + std::to_string(LIB(json_object_get_int(o)));
				r += ";i64=" + std::to_string((long long)LIB(json_object_get_int64(o)));
				r += ";u64=" + std::to_string((unsigned long long)LIB(json_object_get_uint64(o)));
				double d = LIB(json_object_get_double(o));
				uint64_t bits;
				memcpy(&bits, &d, sizeof bits);
				r += ";dbl=" + std::to_string((unsigned long long)bits);
				r += ";type=" + std::to_string((int)LIB(json_object_get_type(o)));
				for (int fl : {0, (int)JSON_C_TO_STRING_NOSLASHESCAPE, (int)(JSON_C_TO_STRING_PRETTY | JSON_C_TO_STRING_SPACED)})
				{
					size_t sl = 0;
					const char *t = LIB(json_object_to_json_string_length(o, fl, &sl));
					r += ";ser" + std::to_string(fl) + "=" + (t ? hexenc(std::string(t, sl)) : std::string("NULL"));
				}
				return r;
			};
			std::string a = obs(n.o), b = obs(twin);
			if (a != b)
				ctx.fail("C11:history-shows-through-accessor", "op %zu (%s): node after its history reads %s ; a fresh node with the same %zu bytes reads %s", oi, after, a.substr(0, 300).c_str(),
				         n.bytes.size(), b.substr(0, 300).c_str());
			if (!LIB(json_object_equal(n.o, twin)) || !LIB(json_object_equal(twin, n.o)))
				ctx.fail("C11:equal-mismatch", "op %zu (%s): the node does not compare equal to a fresh node holding the same bytes", oi, after);
			LIBV(json_object_put(twin));
		}
	}

	void run(const Plan &p, RunCtx &ctx) override
	{
		Node nodes[3];
		auto ensure = [&](int i) -> Node & {
			Node &n = nodes[i];
			if (!n.o)
			{
				n.o = LIB(json_object_new_string_len("seed", 4));
				n.bytes = "seed";
				n.created_len = 4;
				n.heap_guess = false;
			}
			return n;
		};
		for (size_t oi = 0; oi < p.ops.size(); oi++)
		{
			const Op &op = p.ops[oi];
			int ni = (int)((op.arg(0) < 0 ? -op.arg(0) : op.arg(0)) % 3);
			std::string cov = op.kind;
			if (op.kind == "new")
			{
				Node &n = nodes[ni];
				if (n.o)
					LIBV(json_object_put(n.o));
				std::string data = op.data;
				bool lenvariant = op.arg(1) & 1;
				if (!lenvariant)
				{
					size_t z = data.find('\0');
					if (z != std::string::npos)
					{
						data.resize(z);
						ctx.probe("strlen_variant_truncates");
					}
					std::string zt = data + std::string(1, '\0');
					ExactBuf b(zt);
					n.o = LIB(json_object_new_string(b.p));
				}
				else
				{
					ExactBuf b(data);
					n.o = LIB(json_object_new_string_len(b.p, (int)data.size()));
				}
				if (!n.o)
					ctx.fail("C11:new-failed", "op %zu: creating a %zu-byte string failed", oi, data.size());
				n.bytes = data;
				n.created_len = data.size();
				n.heap_guess = false;
				cov += data.size() < 8 ? "|short" : "|long";
			}
			else if (op.kind == "set")
			{
				Node &n = ensure(ni);
				std::string data = op.data;
				bool lenvariant = op.arg(1) & 1;
				if (!lenvariant)
				{
					size_t z = data.find('\0');
					if (z != std::string::npos)
					{
						data.resize(z);
						ctx.probe("strlen_variant_truncates");
					}
				}
				size_t oldlen = n.bytes.size();
				std::string zt = data + std::string(1, '\0');
				arm_faults(op, ctx);
				int rc;
				if (lenvariant)
				{
					ExactBuf b(data);
					rc = LIB(json_object_set_string_len(n.o, b.p, (int)data.size()));
				}
				else
				{
					ExactBuf b(zt);
					rc = LIB(json_object_set_string(n.o, b.p));
				}
				bool fired = g_alloc.fired > 0;
				tally_faults(ctx);
				disarm_faults();
				std::string lenrel = data.size() > oldlen ? "longer" : data.size() < oldlen ? "shorter" : "same";
				if (rc == 1)
				{
					bool was_heap = n.heap_guess;
					if (data.size() > oldlen && data.size() > std::max<size_t>(n.created_len, 7))
					{
						ctx.probe(was_heap ? "set.grow_heap_to_bigger_heap" : "set.grow_from_inline_to_heap");
						n.heap_guess = true;
						ctx.nontrivial = true;
					}
					else if (data.size() < oldlen)
					{
						if (data.empty() && was_heap)
						{
							ctx.probe("set.to_zero_length_from_heap");
							n.heap_guess = false;
						}
						else
							ctx.probe(was_heap ? "set.shrink_within_heap" : "set.shrink_within_inline");
					}
					else if (data.size() == oldlen)
						ctx.probe("set.same_length");
					if (data.find('\0') != std::string::npos)
						ctx.probe("set.embedded_nul");
					for (unsigned char c : data)
						if (c >= 0x80)
						{
							ctx.probe("set.non_utf8");
							break;
						}
					n.bytes = data;
					cov += "|" + lenrel + (n.heap_guess ? "|heap" : "|inline") + "|ok";
				}
				else if (rc == 0)
				{
					if (!fired)
						ctx.fail("C11:spurious-failure", "op %zu: set of %zu bytes (old %zu) returned 0 without an allocation failure", oi, data.size(), oldlen);
					ctx.probe("set.alloc_failed_contents_kept");
					ctx.nontrivial = true;
					cov += "|" + lenrel + "|alloc-failed";
					// model unchanged: the previous contents must still be there (verified below)
				}
				else
					ctx.fail("C11:wrong-return", "op %zu: set returned %d", oi, rc);
			}
			else if (op.kind == "selfsrc")
			{
				// sources that alias memory the node itself owns (both are pointers the API hands out and keeps valid): its own cached
				// serialization, or a non-overlapping slice of its own current contents
				Node &n = ensure(ni);
				std::string want;
				int rc;
				if (op.arg(1) & 1)
				{
					const char *t = LIB(json_object_to_json_string_ext(n.o, JSON_C_TO_STRING_PLAIN));
					if (!t)
						ctx.fail("C11:serialize-failed", "op %zu: serialization failed without a fault", oi);
					want = t; // C string: the escaped text contains no NUL
					rc = (op.arg(1) & 2) ? LIB(json_object_set_string_len(n.o, t, (int)want.size())) : LIB(json_object_set_string(n.o, t));
					ctx.probe("set.from_own_serialization");
				}
				else
				{
					size_t cur = n.bytes.size();
					size_t k = cur / 2 ? 1 + (size_t)op.arg(2) % (cur / 2) : 0; // 1 <= k <= cur/2
					size_t off = k ? k + (size_t)op.arg(3) % (cur - 2 * k + 1) : 0; // k <= off, off + k <= cur: no overlap with [0,k)
					if ((op.arg(1) & 2) && cur > 0 && (op.arg(3) & 1))
					{
						// the strlen-based setter given the node's own pointer: the contents become what strlen sees
						const char *own = LIB(json_object_get_string(n.o));
						rc = LIB(json_object_set_string(n.o, own));
						if (rc != 1)
							ctx.fail("C11:wrong-return", "op %zu: set_string(n, get_string(n)) returned %d", oi, rc);
						size_t z = n.bytes.find('\0');
						if (z != std::string::npos)
							n.bytes.resize(z);
						ctx.probe("set.strlen_setter_with_own_pointer");
						cov += "|ownstr";
						verify(ctx, n, oi, "selfsrc", true);
						continue;
					}
					if ((op.arg(1) & 2) && cur > 0)
					{
						// truncation through the node's own pointer: set_string_len(n, get_string(n), k) with k below the length (also 0)
						off = 0;
						k = (size_t)op.arg(2) % cur;
						want = n.bytes.substr(0, k);
						const char *base0 = LIB(json_object_get_string(n.o));
						rc = LIB(json_object_set_string_len(n.o, base0, (int)k));
						ctx.probe("set.truncate_through_own_pointer");
						if (rc != 1)
							ctx.fail("C11:wrong-return", "op %zu: truncation through the node's own pointer returned %d", oi, rc);
						n.bytes = want;
						cov += "|owntrunc";
						verify(ctx, n, oi, "selfsrc", true);
						continue;
					}
					if (k == 0)
					{
						verify(ctx, n, oi, "selfsrc-skipped", false);
						continue;
					}
					want = n.bytes.substr(off, k);
					const char *base = LIB(json_object_get_string(n.o));
					rc = LIB(json_object_set_string_len(n.o, base + off, (int)k));
					ctx.probe("set.from_slice_of_own_contents");
				}
				if (rc != 1)
					ctx.fail("C11:wrong-return", "op %zu: set from a source owned by the node returned %d", oi, rc);
				n.bytes = want;
				cov += (op.arg(1) & 1) ? "|ser" : "|slice";
			}
			else if (op.kind == "badlen")
			{
				Node &n = ensure(ni);
				int bad = (int)op.arg(1);
				if (bad >= 0 && bad < INT_MAX - 1)
					bad = -1;
				char dummy[4] = "abc";
				int rc = LIB(json_object_set_string_len(n.o, dummy, bad));
				if (rc != 0)
					ctx.fail("C11:bad-length-accepted", "op %zu: set_string_len(len=%d) returned %d", oi, bad, rc);
				ctx.probe("set.refused_length");
				cov += "|refused";
				// the string setters applied to a node that is not a string: refused (documented: returns 0), node untouched
				struct json_object *other = (bad & 1) ? LIB(json_object_new_int64(1234567)) : LIB(json_tokener_parse("[1,\"x\"]"));
				if (other)
				{
					std::string was = typed_dump(other);
					int r2 = (bad & 1) ? LIB(json_object_set_string(other, "zz")) : LIB(json_object_set_string_len(other, "zzzzzzzzzzzzzzzzzzzz", 20));
					if (r2 != 0 || typed_dump(other) != was)
						ctx.fail("C11:set-on-non-string", "op %zu: a string setter applied to a non-string node returned %d; node %s -> %s", oi, r2, was.c_str(), typed_dump(other).c_str());
					LIBV(json_object_put(other));
				}
			}
			else if (op.kind == "copy")
			{
				Node &n = ensure(ni);
				struct json_object *c = nullptr;
				int rc = LIB(json_object_deep_copy(n.o, &c, nullptr));
				if (rc != 0 || !c)
					ctx.fail("C11:copy-failed", "op %zu: deep_copy failed without a fault", oi);
				if (node_bytes(c) != n.bytes || json_object_get_string(c)[n.bytes.size()] != '\0')
					ctx.fail("C11:copy-mismatch", "op %zu: deep copy holds %s, original model %s", oi, hexenc(node_bytes(c)).substr(0, 100).c_str(), hexenc(n.bytes).substr(0, 100).c_str());
				if (!LIB(json_object_equal(n.o, c)) || !LIB(json_object_equal(c, n.o)))
					ctx.fail("C11:equal-mismatch", "op %zu: a deep copy does not compare equal to its original", oi);
				if (n.heap_guess)
					ctx.probe("copy.of_heap_string");
				// the copy is a string node of its own: bytes set on it afterwards are read back from it, and the original still
				// reads the last bytes set on the ORIGINAL (both lengths cross the inline threshold in one direction or the other)
				if (c)
				{
					std::string other = n.bytes.size() > 20 ? std::string("c\0p", 3) : std::string(40, 'c') + std::string("\0y", 2);
					if (LIB(json_object_set_string_len(c, other.data(), (int)other.size())) == 1)
					{
						if (node_bytes(c) != other)
							ctx.fail("C11:content-mismatch", "op %zu: a deep copy does not read back the bytes set on it", oi);
						if (node_bytes(n.o) != n.bytes || json_object_get_string(n.o)[n.bytes.size()] != '\0')
							ctx.fail("C11:copy-not-independent", "op %zu: setting the deep copy changed the original: reads %s, last set %s", oi, hexenc(node_bytes(n.o)).substr(0, 100).c_str(),
							         hexenc(n.bytes).substr(0, 100).c_str());
						ctx.probe("copy.mutated_original_checked");
					}
				}
				LIBV(json_object_put(c));
			}
			else if (op.kind == "roundtrip")
			{
				Node &n = ensure(ni);
				static const int rt_flags[4] = {JSON_C_TO_STRING_PLAIN, JSON_C_TO_STRING_NOSLASHESCAPE, JSON_C_TO_STRING_COLOR, JSON_C_TO_STRING_COLOR | JSON_C_TO_STRING_PRETTY | JSON_C_TO_STRING_SPACED};
				int flags = rt_flags[op.arg(1) & 3];
				std::string text = ser(n.o, flags);
				if (flags & JSON_C_TO_STRING_COLOR)
				{
					// colour = the same text with terminal escape sequences around the tokens; a raw ESC never occurs inside an escaped JSON string
					std::string plain;
					for (size_t i = 0; i < text.size(); i++)
					{
						if (text[i] == '\x1b' && i + 1 < text.size() && text[i + 1] == '[')
						{
							while (i < text.size() && text[i] != 'm')
								i++;
							continue;
						}
						plain.push_back(text[i]);
					}
					text = plain;
					ctx.probe("serialize.colour_flag");
				}
				text.push_back('\0');
				ParseResult r = oneshot(text, 0, 32);
				struct json_object *fresh = LIB(json_object_new_string_len(n.bytes.data(), (int)n.bytes.size()));
				std::string want = typed_dump(fresh);
				LIBV(json_object_put(fresh));
				if (r.err != json_tokener_success || r.dump != want)
					ctx.fail("C11:serialization-loses-bytes", "op %zu: serialization %s parses back to %s, the node holds %s", oi, printable(text, 100).c_str(), r.dump.substr(0, 120).c_str(),
					         want.substr(0, 120).c_str());
				if (n.bytes.find('\0') != std::string::npos)
					ctx.probe("roundtrip.with_nul");
			}
			else if (op.kind == "equal")
			{
				Node &n = ensure(ni);
				std::string other = n.bytes;
				int mode = (int)(op.arg(1) % 3);
				if (mode == 1)
					other.push_back('x');
				else if (mode == 2 && !other.empty())
					other[other.size() - 1] = (char)(other[other.size() - 1] ^ 1);
				struct json_object *fresh = LIB(json_object_new_string_len(other.data(), (int)other.size()));
				int eq = LIB(json_object_equal(n.o, fresh));
				bool want = other == n.bytes;
				if ((eq != 0) != want)
					ctx.fail("C11:equal-mismatch", "op %zu: json_object_equal says %d for contents that are %s", oi, eq, want ? "identical" : "different");
				LIBV(json_object_put(fresh));
				cov += want ? "|same" : "|different";
			}
			else if (op.kind == "put")
			{
				Node &n = nodes[ni];
				if (n.o)
				{
					// a delete callback may still read the node it is told about (it runs before the node is torn down)
					struct DelProbe
					{
						const std::string *want;
						bool ran, ok;
					} probe{&n.bytes, false, false};
					LIBV(json_object_set_userdata(n.o, &probe, [](struct json_object *jso, void *ud) {
						HarnessScope hs;
						DelProbe *pr = (DelProbe *)ud;
						pr->ran = true;
						const char *sp = json_object_get_string(jso);
						int sl = json_object_get_string_len(jso);
						pr->ok = sp && sl == (int)pr->want->size() && memcmp(sp, pr->want->data(), pr->want->size()) == 0 && sp[sl] == '\0';
					}));
					int rc = LIB(json_object_put(n.o));
					if (!probe.ran || !probe.ok)
						ctx.fail("C11:contents-gone-before-delete-callback", "op %zu: the node's delete callback %s", oi, probe.ran ? "read bytes that are not the last bytes set" : "did not run");
					if (rc != 1)
						ctx.fail("C11:put-did-not-free", "op %zu: json_object_put of the only reference returned %d", oi, rc);
					n.o = nullptr;
				}
			}
			ctx.log("op %zu %s node=%d len=%zu", oi, op.kind.c_str(), ni, nodes[ni].bytes.size());
			ctx.cover(cov);
			for (auto &n : nodes)
				verify(ctx, n, oi, op.kind.c_str(), op.kind == "set" || op.kind == "new" || op.kind == "selfsrc" || oi + 1 == p.ops.size());
		}
		for (auto &n : nodes)
			if (n.o)
				LIBV(json_object_put(n.o));
		if (!g_alloc.live.empty())
			ctx.fail("C11:leak@" + g_alloc.first_live_site(), "%zu allocation(s) remain after every node was released:%s", g_alloc.live.size(),
			         g_alloc.describe_live().c_str());
	}
};
REGISTER_PROPERTY(C11)
} // namespace
