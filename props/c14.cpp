// C14 — parse/serialize are locale-independent and leave the caller's locale untouched.
// Simulated: the ambient numeric locale as drifting configuration: process-global locale C or the synthesized comma-decimal
// locale "vf_COMMA" (compiled offline by locale/build_locale.sh), and a thread locale (none / C / vf_COMMA) installed with
// uselocale.  Ops: parse calls that reach every outcome class (success, continue, syntax errors, depth error, size error,
// memory error), one-shot and chunked; serialization of trees with non-integers under the default and plain precision
// formats; json_c_set_serialization_double_format.  Faults: duplocale / newlocale fail with ENOMEM, allocation failures.
// Oracle: (1) every parsed value / serialized byte equals the C-locale reference pass of the same plan; (2) uselocale(NULL),
// the global locale string and a printf("%f") probe are identical before and after every library call on every return path;
// (3) every locale object created inside a call is freed or consumed by the time it returns (exact, from the wrapped calls).
#include "gen_json.h"
#include "tok_util.h"
#include <algorithm>
#include <cerrno>
#include <clocale>
#include <locale.h>

namespace
{
struct C14 : Property
{
	const char *id() const override { return "C14"; }
	const char *level() const override { return "exploration"; }
	uint64_t runs(Tier t) const override { return t == QUICK ? 60000 : 2000000; }
	std::string rule() const override
	{
		return "seeded plans (<=24 ops): {global locale C | vf_COMMA} x {thread locale none | C | vf_COMMA}; ops parse (json_tokener_parse_ex with NUL, chunked, json_tokener_parse, "
		       "invalid length), serialize (flags, default format / %.3f / %.0f / %e / %.17g set globally or per thread, json_object_double_to_json_string with a node format), "
		       "with duplocale / newlocale / allocation failures attached to ops. Every plan is executed twice: C-locale reference pass, then under the configured locales. "
		       "A run is non-trivial if a comma-decimal locale was in effect and at least one op handled a non-integer; distinct = distinct sets of "
		       "(locale configuration, op, outcome class, fault kind) keys.";
	}
	std::vector<std::string> assumptions() const override
	{
		return {"formats with the ' grouping flag are outside the claim", "the comma locale is a synthesized glibc locale (decimal_point ',', thousands_sep '.', grouping 3;3) loaded through LOCPATH",
		        "glibc locale functions are real; the wrappers only record calls, track created objects and inject ENOMEM"};
	}
	std::vector<std::string> probes() const override
	{
		return {"locale.global_comma", "locale.thread_comma", "locale.thread_C_over_global_comma", "outcome.success", "outcome.continue", "outcome.syntax_error", "outcome.depth_error",
		        "outcome.size_error", "outcome.memory_error", "fault.duplocale_failed", "fault.newlocale_failed", "parse.non_integer_under_comma", "serialize.non_integer_under_comma",
		        "format.custom_under_comma", "restore_checked_calls", "format.grouping_flag_then_reset", "stale_errno_on_entry", "parser_created_under_another_thread_locale"};
	}
	std::map<std::string, int64_t> cfg_defaults() const override { return {}; }

	Plan generate(Rng &r, Tier, uint64_t index) override
	{
		Plan p;
		p.cfg["global"] = (int64_t)r.below(2);  // 0 C, 1 vf_COMMA
		p.cfg["thread"] = (int64_t)r.below(3);  // 0 none, 1 C, 2 vf_COMMA
		bool faulted = index & 1;
		p.cfg["faulted"] = faulted;
		int nops = (int)r.range(2, 24);
		for (int i = 0; i < nops; i++)
		{
			Op op;
			switch (r.below(10))
			{
			case 0:
			case 1:
			case 2:
			case 3:
			{
				op.kind = "parse";
				static const int fl[] = {0, 1, 2, 0x10};
				std::string text;
				switch (r.below(8))
				{
				case 0: text = "1.5"; break;
				case 1: text = "[0.25,-3.75e2,1e-3,123456.789,1.0]"; break;
				case 2: text = "{\"a\":2.5,\"b\":[1.25,{\"c\":-0.5}]}"; break;
				case 3: text = r.pick(std::vector<std::string>{"[1.5,", "{\"a\":1.", "[1.5e", "\"abc", "[[[[[[1.5"}); break;                         // needs more input
				case 4: text = r.pick(std::vector<std::string>{"[1.5,,2]", "{\"a\" 1.5}", "[1.5}", "tru", "{1.5:2}", "[1.5e+]", "1.2.3", "nul", "/x"}); break; // syntax errors
				case 5: text = std::string((size_t)r.range(2, 40), '[') + "1.5"; break;                                                              // depth
				default:
				{
					GenOpts go;
					go.weird = r.chance(1, 3);
					go.max_depth = 3;
					go.size_budget = 80;
					JsonGen g(r, go);
					g.value(0);
					text = g.out;
					break;
				}
				}
				op.data = text;
				static const int stale[] = {0, 0, 0, ENOMEM, EINTR, ERANGE, EINVAL};
				op.a = {(int64_t)r.below(4), fl[r.below(4)], r.chance(1, 4) ? (int64_t)r.range(1, 5) : 32, (int64_t)r.below(1000), (int64_t)r.below(4), stale[r.below(7)]};
				break;
			}
			case 4:
			case 5:
			case 6:
			{
				op.kind = "ser";
				static const int sf[] = {0, 1, 2, 2 | 8, 32, 1 | 32, 4, 1 | 4, 2 | 4 | 16};
				op.a = {sf[r.below(9)], (int64_t)r.below(4), (int64_t)r.range(-2000000, 2000000), (int64_t)r.below(11)};
				op.data = r.pick(std::vector<std::string>{"[1.5,2.25,{\"d\":0.1,\"e\":-1234567.875}]", "0.5", "[1e300,1e-300,3.0,100.0]", "{\"x\":[0.001,1000.5]}", "[1,2,3.5]"});
				break;
			}
			default:
				op.kind = "fmt";
				op.a = {(int64_t)r.below(12), (int64_t)r.below(2)};
				break;
			}
			if (faulted && r.chance(1, 3))
			{
				Fault f;
				switch (r.below(3))
				{
				case 0: f.kind = "dup"; f.a = {0}; break;
				case 1: f.kind = "newloc"; f.a = {0}; break;
				default: f.kind = "alloc"; f.a = {(int64_t)r.below(6)}; break;
				}
				op.faults.push_back(f);
			}
			p.ops.push_back(op);
		}
		return p;
	}

	struct Snapshot
	{
		locale_t thread;
		std::string global;
		std::string probe;
	};
	static Snapshot snap()
	{
		Snapshot s;
		s.thread = uselocale((locale_t)0);
		const char *g = setlocale(LC_ALL, nullptr);
		s.global = g ? g : "(null)";
		char b[64];
		snprintf(b, sizeof b, "%f", 1.5);
		s.probe = b;
		return s;
	}
	void check_restored(RunCtx &ctx, const Snapshot &before, const char *what, size_t oi)
	{
		Snapshot after = snap();
		ctx.probe("restore_checked_calls");
		if (after.thread != before.thread)
			ctx.fail("C14:thread-locale-not-restored", "op %zu (%s): uselocale(NULL) differs after the call", oi, what);
		if (after.global != before.global)
			ctx.fail("C14:global-locale-changed", "op %zu (%s): setlocale(LC_ALL,NULL) was '%s', now '%s'", oi, what, before.global.c_str(), after.global.c_str());
		if (after.probe != before.probe)
			ctx.fail("C14:numeric-formatting-changed", "op %zu (%s): printf(\"%%f\",1.5) gave '%s' before the call and '%s' after it", oi, what, before.probe.c_str(), after.probe.c_str());
		if (!g_loc.live_created.empty())
			ctx.fail("C14:locale-object-leaked", "op %zu (%s): %zu locale object(s) created inside the call were neither freed nor consumed", oi, what, g_loc.live_created.size());
	}

	// executes all ops under the locales installed by the caller; returns one observation string per op
	std::vector<std::string> pass(const Plan &p, RunCtx &ctx, bool is_ref, bool comma_effective)
	{
		std::vector<std::string> obs;
		LIB(json_c_set_serialization_double_format(nullptr, JSON_C_OPTION_GLOBAL));
		LIB(json_c_set_serialization_double_format(nullptr, JSON_C_OPTION_THREAD));
		bool custom_fmt = false;
		bool unclaimed_global = false, unclaimed_thread = false;
		for (size_t oi = 0; oi < p.ops.size(); oi++)
		{
			const Op &op = p.ops[oi];
			std::string o;
			std::string faultkind = op.faults.empty() ? "nofault" : op.faults[0].kind;
			if (op.kind == "parse")
			{
				int mode = (int)(op.arg(0) % 4), flags = (int)op.arg(1) & 0x13, depth = (int)op.arg(2, 32);
				if (depth < 1)
					depth = 1;
				if (depth > 64)
					depth = 64;
				std::string text = op.data;
				bool with_nul = op.arg(4) & 1;
				if (with_nul)
					text.push_back('\0');
				bool nonint = text.find('.') != std::string::npos || text.find('e') != std::string::npos;
				struct json_tokener *tok = nullptr;
				if (mode != 2)
				{
					if (op.arg(4) & 2)
					{
						// a long-lived parser: created while the thread was on ANOTHER locale handle than the one in effect at the parse call
						// (the locale to restore is the one found at the call, not one remembered from construction time)
						static locale_t scratch = newlocale(LC_ALL_MASK, "C", (locale_t)0);
						locale_t cur = uselocale((locale_t)0);
						if (scratch)
							uselocale(scratch);
						tok = new_tok(depth, flags);
						uselocale(cur);
						if (!is_ref)
							ctx.probe("parser_created_under_another_thread_locale");
					}
					else
						tok = new_tok(depth, flags);
				}
				Snapshot before = snap();
				arm_faults(op, ctx);
				int last_err = 0;
				errno = (int)op.arg(5, 0); // whatever an earlier, unrelated call left in errno must not matter
				if (errno && !is_ref)
					ctx.probe("stale_errno_on_entry");
				if (mode == 2)
				{
					std::string z = op.data.substr(0, op.data.find('\0'));
					z.push_back('\0');
					ExactBuf b(z);
					enum json_tokener_error err = json_tokener_success;
					struct json_object *v = LIB(json_tokener_parse_verbose(b.p, &err));
					check_restored(ctx, before, "json_tokener_parse_verbose", oi);
					o = std::string("err=") + std::to_string((int)err) + ";" + typed_dump(v);
					last_err = (int)err;
					if (v)
						LIBV(json_object_put(v));
				}
				else if (mode == 3)
				{
					char dummy = '1';
					struct json_object *v = LIB(json_tokener_parse_ex(tok, &dummy, -5 - (int)(op.arg(3) % 100)));
					check_restored(ctx, before, "json_tokener_parse_ex(len<-1)", oi);
					last_err = (int)json_tokener_get_error(tok);
					o = "err=" + std::to_string(last_err) + ";" + typed_dump(v);
					if (v)
						LIBV(json_object_put(v));
				}
				else
				{
					std::vector<size_t> cuts;
					if (mode == 1)
					{
						Rng cr((uint64_t)op.arg(3) + 3);
						int nc = (int)cr.range(1, 4);
						for (int c = 0; c < nc; c++)
							cuts.push_back((size_t)cr.below(text.size() + 1));
						std::sort(cuts.begin(), cuts.end());
					}
					cuts.push_back(text.size());
					size_t cur = 0;
					for (size_t c = 0; c < cuts.size(); c++)
					{
						ParseResult r = parse_call(tok, text.substr(cur, cuts[c] - cur));
						check_restored(ctx, before, "json_tokener_parse_ex", oi);
						cur = cuts[c];
						o += "[" + std::to_string(r.err) + ";" + r.dump + ";" + std::to_string(r.end) + "]";
						last_err = r.err;
						if (r.err != json_tokener_continue)
							break;
					}
				}
				bool fired = g_alloc.fired || g_loc.fired;
				if (g_loc.fired && !is_ref)
					ctx.probe(op.faults[0].kind == "dup" ? "fault.duplocale_failed" : "fault.newlocale_failed");
				tally_faults(ctx);
				disarm_faults();
				if (tok)
					LIBV(json_tokener_free(tok));
				std::string cls = last_err == json_tokener_success ? "success" : last_err == json_tokener_continue ? "continue" : last_err == json_tokener_error_depth ? "depth_error"
				                  : last_err == json_tokener_error_size  ? "size_error" : last_err == json_tokener_error_memory ? "memory_error" : "syntax_error";
				if (!is_ref)
				{
					ctx.probe("outcome." + cls);
					if (nonint && comma_effective && cls == "success")
					{
						ctx.probe("parse.non_integer_under_comma");
						ctx.nontrivial = true;
					}
					ctx.cover("parse|" + cls + "|" + faultkind + (fired ? "|fired" : ""));
				}
			}
			else if (op.kind == "ser")
			{
				// tree built by parsing (unfaulted); one extra double node with a per-node format
				std::string t = op.data;
				t.push_back('\0');
				struct json_tokener *tok = new_tok(32, 0);
				ExactBuf b(t);
				struct json_object *tree = LIB(json_tokener_parse_ex(tok, b.p, (int)t.size()));
				LIBV(json_tokener_free(tok));
				struct json_object *arr = LIB(json_object_new_array());
				LIB(json_object_array_add(arr, tree));
				double x = (double)op.arg(2) / 1024.0;
				LIB(json_object_array_add(arr, json_object_new_double(x)));
				// (flags and field widths included: the fix-up of the decimal separator must not depend on what surrounds the digits)
				static const char *nodefmt[11] = {nullptr, "%.3f", "%.0f", "%e", "%.1f", "%8.3f", "%+.2f", "% .3f", "%-10.4f|", "%#.0f", "%.140f"}; // last: longer than json-c's 128-byte scratch buffer
				const char *nf = nodefmt[op.arg(3) % 11];
				struct json_object *dn = LIB(json_object_new_double(x * 3));
				if (nf)
					LIBV(json_object_set_serializer(dn, json_object_double_to_json_string, (void *)nf, nullptr));
				LIB(json_object_array_add(arr, dn));
				int flags = (int)op.arg(0) & 63;
				Snapshot before = snap();
				arm_faults(op, ctx);
				const char *s = LIB(json_object_to_json_string_ext(arr, flags));
				o = s ? std::string("text:") + s : std::string("NULL");
				// (with such a format the two passes produce texts of different length, so even which allocation an injected
				//  failure hits differs: neither the text nor a NULL result is comparable)
				if (unclaimed_global || unclaimed_thread)
					o = "<format with grouping flag active: not compared>";
				check_restored(ctx, before, "json_object_to_json_string_ext", oi);
				bool fired = g_alloc.fired > 0;
				tally_faults(ctx);
				disarm_faults();
				LIBV(json_object_put(arr));
				if (!is_ref)
				{
					if (comma_effective && s)
					{
						ctx.probe("serialize.non_integer_under_comma");
						ctx.nontrivial = true;
						if (custom_fmt || nf)
							ctx.probe("format.custom_under_comma");
					}
					ctx.cover(std::string("ser|") + (s ? "ok" : "null") + "|" + faultkind + (fired ? "|fired" : "") + (nf ? "|nodefmt" : ""));
				}
			}
			else if (op.kind == "fmt")
			{
				// index 6: a format with the ' grouping flag - its OWN output is outside the claim (serializations are not compared
				// while it is active), but once the format is reset the default must be fully locale independent again
				static const char *fmts[12] = {nullptr, "%.3f", "%.0f", "%e", "%.17g", "%.2f", "%'.2f", "%10.4f", "%+.1f", "% .2f", "%-9.3f", "%#.0f"};
				const char *f = fmts[op.arg(0) % 12];
				Snapshot before = snap();
				arm_faults(op, ctx);
				int rc = LIB(json_c_set_serialization_double_format(f, (op.arg(1) & 1) ? JSON_C_OPTION_THREAD : JSON_C_OPTION_GLOBAL));
				check_restored(ctx, before, "json_c_set_serialization_double_format", oi);
				tally_faults(ctx);
				disarm_faults();
				o = "rc=" + std::to_string(rc);
				custom_fmt = f != nullptr && rc == 0;
				if (rc == 0)
				{
					bool unclaimed = f && strchr(f, '\'');
					bool thread_scope = op.arg(1) & 1;
					if (thread_scope)
						unclaimed_thread = unclaimed;
					else
					{
						unclaimed_global = unclaimed;
						unclaimed_thread = false; // setting the global format drops the thread format
					}
					if (unclaimed && !is_ref)
						ctx.probe("format.grouping_flag_then_reset");
				}
				if (!is_ref)
					ctx.cover(std::string("fmt|") + (rc == 0 ? "ok" : "failed") + "|" + faultkind);
			}
			obs.push_back(o);
			ctx.log("%s op %zu %s -> %s", is_ref ? "ref" : "tst", oi, op.kind.c_str(), o.substr(0, 100).c_str());
		}
		LIB(json_c_set_serialization_double_format(nullptr, JSON_C_OPTION_GLOBAL));
		LIB(json_c_set_serialization_double_format(nullptr, JSON_C_OPTION_THREAD));
		return obs;
	}

	void run(const Plan &p, RunCtx &ctx) override
	{
		int glob = (int)(p.c("global") % 2), thr = (int)(p.c("thread") % 3);
		// ---- reference pass: plain C everywhere
		setlocale(LC_ALL, "C");
		uselocale(LC_GLOBAL_LOCALE);
		std::vector<std::string> ref = pass(p, ctx, true, false);
		if (!g_alloc.live.empty())
			ctx.fail("C14:leak@" + g_alloc.first_live_site(), "reference pass: %zu allocation(s) remain:%s", g_alloc.live.size(), g_alloc.describe_live().c_str());
		// ---- test pass under the configured locales
		struct Restore
		{
			locale_t made = (locale_t)0;
			~Restore()
			{
				uselocale(LC_GLOBAL_LOCALE);
				if (made)
					freelocale(made);
				setlocale(LC_ALL, "C");
			}
		} restore;
		if (glob == 1)
		{
			if (!setlocale(LC_ALL, "vf_COMMA"))
				ctx.fail("C14:harness-locale-missing", "setlocale(vf_COMMA) failed: LOCPATH=%s (run scripts/setup.sh)", getenv("LOCPATH") ? getenv("LOCPATH") : "(unset)");
			ctx.probe("locale.global_comma");
		}
		if (thr != 0)
		{
			restore.made = newlocale(LC_ALL_MASK, thr == 2 ? "vf_COMMA" : "C", (locale_t)0);
			if (!restore.made)
				ctx.fail("C14:harness-locale-missing", "newlocale(%s) failed", thr == 2 ? "vf_COMMA" : "C");
			uselocale(restore.made);
			if (thr == 2)
				ctx.probe("locale.thread_comma");
			if (thr == 1 && glob == 1)
				ctx.probe("locale.thread_C_over_global_comma");
		}
		bool comma_effective = thr == 2 || (thr == 0 && glob == 1);
		{
			char b[32];
			snprintf(b, sizeof b, "%.1f", 1.5);
			if ((std::string(b) == "1,5") != comma_effective)
				ctx.fail("C14:harness-locale-missing", "locale set-up has no effect: printf gives %s", b);
		}
		ctx.log("locales global=%d thread=%d comma=%d", glob, thr, (int)comma_effective);
		ctx.cover(std::string("cfg|g") + std::to_string(glob) + "|t" + std::to_string(thr));
		std::vector<std::string> got = pass(p, ctx, false, comma_effective);
		for (size_t i = 0; i < ref.size() && i < got.size(); i++)
			if (ref[i] != got[i])
				ctx.fail("C14:result-depends-on-locale:" + p.ops[i].kind, "op %zu (%s) under global=%s thread=%s gives %s ; in the C locale it gives %s", i, p.ops[i].kind.c_str(),
				         glob ? "vf_COMMA" : "C", thr == 0 ? "(none)" : thr == 1 ? "C" : "vf_COMMA", got[i].substr(0, 300).c_str(), ref[i].substr(0, 300).c_str());
		if (!g_alloc.live.empty())
			ctx.fail("C14:leak@" + g_alloc.first_live_site(), "%zu allocation(s) remain:%s", g_alloc.live.size(), g_alloc.describe_live().c_str());
	}
};
REGISTER_PROPERTY(C14)
} // namespace
