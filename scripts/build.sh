#!/bin/bash
# build.sh <variant>   -> $B/jsim-<variant>  (json-c compiled from $REPO's current working tree)
. "$(dirname "${BASH_SOURCE[0]}")/common.sh"
variant=${1:?variant}
variant_flags "$variant"

exec 9>"$B/.lock-$variant"
flock 9

case "$CFG" in
cfg) ensure_cfg cfg ;;
cfg-thr) ensure_cfg cfg-thr -DENABLE_THREADING=ON ;;
esac

JSONC_SRCS=$(jsonc_sources "$CFG")
# ---- json-c objects (content-hash cache: recompiled whenever any source/header/flag changes)
OD=$B/jc-$variant
mkdir -p "$OD"
srchash=$( (cd "$REPO" && cat *.c *.h 2>/dev/null; cat "$B/$CFG/config.h" "$B/$CFG/json_config.h" "$B/$CFG/json.h"; echo "$CC $JCFLAGS $JSONC_SRCS") | sha256sum | cut -d' ' -f1)
if [ ! -f "$OD/.stamp" ] || [ "$(cat "$OD/.stamp")" != "$srchash" ]; then
	rm -f "$OD"/*.o "$OD/.stamp"
	pids=()
	for s in $JSONC_SRCS; do
		$CC $JCFLAGS -I"$B/$CFG" -I"$REPO" -c "$REPO/$s.c" -o "$OD/$s.o" 2>"$OD/$s.err" &
		pids+=($!)
	done
	fail=0
	for p in "${pids[@]}"; do wait "$p" || fail=1; done
	if [ $fail -ne 0 ]; then
		echo "BUILD-ERROR: json-c does not compile (variant $variant)" >&2
		cat "$OD"/*.err >&2 || true
		exit 2
	fi
	# seam audit: every undefined libc symbol json-c references must be known
	nm -u "$OD"/*.o | awk '/ U /{print $2}' | sort -u >"$OD/undef.txt"
	# names of functions defined by json-c (for call-site naming)
	nm --defined-only "$OD"/*.o | awk '$2 ~ /^[Tt]$/ {print $3}' | sort -u >"$OD/jsonc-funcs.txt"
	python3 "$V/scripts/seam_audit.py" "$OD/undef.txt" "$OD/jsonc-funcs.txt" "$variant" || exit 2
	echo "$srchash" >"$OD/.stamp"
fi

# ---- harness objects
# they include json-c's public headers (macros and inline functions: printbuf_memappend_fast, json_object_object_foreach,
# lh_entry accessors ...): a change of any header of the tree under test invalidates them (content hash, not mtime, because
# the checks may be pointed at different trees one after the other)
HVD=$B/h-$( [ "$variant" = thrassert ] && echo thr || echo "$variant")
hdrhash=$( (cd "$REPO" && cat *.h 2>/dev/null; cat "$B/$CFG/config.h" "$B/$CFG/json_config.h" "$B/$CFG/json.h") | sha256sum | cut -d' ' -f1)
if [ -d "$HVD" ] && [ "$(cat "$HVD/.hdrhash" 2>/dev/null)" != "$hdrhash" ]; then
	rm -f "$HVD"/*.o
fi
mkdir -p "$HVD"
echo "$hdrhash" >"$HVD/.hdrhash"
make -s -C "$V" -j"$JOBS" VDIR="$V" VARIANT="$variant" HV="$( [ "$variant" = thrassert ] && echo thr || echo "$variant")" \
	CXX="$CXX" CC="$CC" HFLAGS="$HFLAGS" CFGDIR="$B/$CFG" REPO="$REPO" harness

HV=$variant; [ "$variant" = thrassert ] && HV=thr
WRAPS="malloc,calloc,realloc,free,strdup,vasprintf,read,write,open,close,uselocale,newlocale,duplocale,freelocale,setlocale,arc4random,arc4random_buf,arc4random_uniform,getrandom,getentropy,fstat,fstat64,lseek,lseek64"
OUT=$B/jsim-$variant
[ "$HV" = thr ] && WRAPS="$WRAPS,pthread_mutex_lock,pthread_mutex_unlock,pthread_mutex_trylock"
$CXX -no-pie $LDX -o "$OUT.tmp" "$B/h-$HV"/*.o "$OD"/*.o -Wl,--wrap=${WRAPS//,/ -Wl,--wrap=} -lm -ldl -lpthread
nm -n --defined-only "$OUT.tmp" | awk '$2 ~ /^[TtWw]$/ {print $1, $3}' >"$OUT.sym.tmp"
mv "$OUT.sym.tmp" "$OUT.sym"
mv "$OUT.tmp" "$OUT"
cp "$OD/jsonc-funcs.txt" "$OUT.jcfuncs"
