#!/bin/bash
# coverage.sh — line coverage of json-c's own sources under the simulated workloads (reach measurement, not a check)
. "$(dirname "${BASH_SOURCE[0]}")/common.sh"
bash "$V/scripts/build.sh" cov >&2 || exit 2
export LOCPATH=$B/locale
P=$B/covprof; rm -rf "$P"; mkdir -p "$P"
for spec in "C03 3000" "C04 40000" "C05 20000" "C06 20000" "C07 30000" "C08 6000" "C11 30000" "C14 8000" "C19 40000" "C20 1500"; do
	set -- $spec
	LLVM_PROFILE_FILE="$P/$1-%8m.profraw" "$B/jsim-cov" $1 quick --runs $2 --no-evidence >/dev/null 2>&1
done
llvm-profdata-14 merge -sparse "$P"/*.profraw -o "$P/all.profdata"
srcs=""; for s in $JSONC_SRCS; do srcs="$srcs $REPO/$s.c"; done
llvm-cov-14 report "$B/jsim-cov" -instr-profile="$P/all.profdata" $srcs 2>/dev/null | tail -20
llvm-cov-14 show "$B/jsim-cov" -instr-profile="$P/all.profdata" $srcs 2>/dev/null > "$P/show.txt"
echo "annotated sources: $P/show.txt"
