# shared by setup.sh / build.sh / check.sh  (sourced)
set -euo pipefail
V=${VERIF_DIR:-$(cd "$(dirname "${BASH_SOURCE[0]}")/.." && pwd)}
export VERIF_DIR=$V
REPO=${VERIF_REPO:-/repo}
B=$V/build
JOBS=${VERIF_JOBS:-16}
mkdir -p "$B"

JSONC_SRCS="arraylist debug json_c_version json_object json_object_iterator json_tokener json_util json_visit linkhash printbuf random_seed strerror_override json_pointer json_patch"

# hash of everything that influences the cmake-generated headers
cfg_hash() {
	( cd "$REPO" && cat CMakeLists.txt cmake/*.in json.h.cmakein 2>/dev/null | sha256sum | cut -d' ' -f1 )
}

# configure-only cmake run -> config.h json_config.h json.h  ($1 = dir name, $2.. = extra cmake args)
ensure_cfg() {
	local name=$1; shift
	local dir=$B/$name
	local want; want="$(cfg_hash) $REPO $*"
	if [ -f "$dir/.stamp" ] && [ "$(cat "$dir/.stamp")" = "$want" ] && [ -f "$dir/config.h" ]; then
		return 0
	fi
	rm -rf "$dir"; mkdir -p "$dir"
	if ! cmake -S "$REPO" -B "$dir" -DCMAKE_BUILD_TYPE=Debug -DBUILD_APPS=OFF -DDISABLE_WERROR=ON -DCMAKE_EXPORT_COMPILE_COMMANDS=ON \
		-DBUILD_TESTING=OFF -DCMAKE_C_COMPILER=clang "$@" >"$dir/cmake.log" 2>&1; then
		echo "cmake configure failed for $name; see $dir/cmake.log" >&2
		tail -20 "$dir/cmake.log" >&2
		return 2
	fi
	echo "$want" >"$dir/.stamp"
}

# flags per variant
variant_flags() {
	case "$1" in
	asan)
		CC=clang; CXX=clang++; CFG=cfg
		SAN="-fsanitize=address,undefined -fno-sanitize-recover=all"
		JCFLAGS="-O1 -g -fno-inline -fno-omit-frame-pointer -fno-optimize-sibling-calls $SAN -D_GNU_SOURCE"
		HFLAGS="-O1 -g -fno-omit-frame-pointer $SAN -DJSIM_ASAN=1"
		LDX="$SAN"
		;;
	plain)
		CC=gcc; CXX=g++; CFG=cfg
		JCFLAGS="-O1 -g -fno-inline -fno-omit-frame-pointer -fno-optimize-sibling-calls -D_GNU_SOURCE"
		HFLAGS="-O1 -g -fno-omit-frame-pointer"
		LDX=""
		;;
	cov)
		# coverage of json-c itself under the simulated workloads (scripts/coverage.sh); not used by any check
		CC=clang; CXX=clang++; CFG=cfg
		JCFLAGS="-O0 -g -fno-inline -fno-omit-frame-pointer -fprofile-instr-generate -fcoverage-mapping -D_GNU_SOURCE"
		HFLAGS="-O1 -g -fno-omit-frame-pointer"
		LDX="-fprofile-instr-generate"
		;;
	thr)
		CC=clang; CXX=clang++; CFG=cfg-thr
		JCFLAGS="-O1 -g -fno-inline -fno-omit-frame-pointer -fno-optimize-sibling-calls -fsanitize=thread -DNDEBUG -D_GNU_SOURCE -D_REENTRANT"
		HFLAGS="-O1 -g -fno-omit-frame-pointer -DJSIM_THR=1"
		LDX="-pthread"
		;;
	thrassert)
		CC=clang; CXX=clang++; CFG=cfg-thr
		JCFLAGS="-O1 -g -fno-inline -fno-omit-frame-pointer -fno-optimize-sibling-calls -fsanitize=thread -D_GNU_SOURCE -D_REENTRANT"
		HFLAGS="-O1 -g -fno-omit-frame-pointer -DJSIM_THR=1"
		LDX="-pthread"
		;;
	*) echo "unknown variant $1" >&2; return 2;;
	esac
}

# the library's source list as cmake sees it (so that a source file added to / removed from the build is followed);
# falls back to the list above
jsonc_sources() {
	local cc=$B/$1/compile_commands.json
	if [ -f "$cc" ]; then
		python3 - "$cc" "$REPO" <<'PY' && return 0
import json, os, sys
cc, repo = sys.argv[1], os.path.realpath(sys.argv[2])
names = []
for e in json.load(open(cc)):
    f = os.path.realpath(e["file"])
    if os.path.dirname(f) == repo and f.endswith(".c"):
        n = os.path.basename(f)[:-2]
        if n not in names:
            names.append(n)
if not names:
    sys.exit(1)
print(" ".join(names))
PY
	fi
	echo "$JSONC_SRCS"
}
