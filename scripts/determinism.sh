#!/bin/bash
# determinism.sh [n_indices]  — every property: the same plan indices executed in independent processes (different ASLR,
# different batching) must give identical event-log fingerprints and violation classes.
. "$(dirname "${BASH_SOURCE[0]}")/common.sh"
n=${1:-240}
export LOCPATH=$B/locale
bash "$V/scripts/build.sh" asan >&2 || exit 2
bash "$V/scripts/build.sh" thr >&2 || exit 2
fail=0
for id in C03 C04 C05 C06 C07 C08 C11 C14 C19 C20 C18 C14T; do
	case $id in C18|C14T) bin=$B/jsim-thr ;; *) bin=$B/jsim-asan ;; esac
	idx=$(python3 -c "print(','.join(str(i*7+3) for i in range($n)))")
	a=$($bin $id --indices $idx 2>/dev/null | awk '{print $2,$3,$4,$5,$6}')
	b=$($bin $id --indices $idx 2>/dev/null | awk '{print $2,$3,$4,$5,$6}')
	# second arrangement: reversed order in one process (state carried between runs must not matter)
	ridx=$(python3 -c "print(','.join(str(i*7+3) for i in reversed(range($n))))")
	c=$($bin $id --indices $ridx 2>/dev/null | awk '{print $2,$3,$4,$5,$6}' | tac)
	# third arrangement: rotated by n/3 (a different run is the first one of the process)
	oidx=$(python3 -c "n=$n; print(','.join(str(((i+n//3)%n)*7+3) for i in range(n)))")
	d=$($bin $id --indices $oidx 2>/dev/null | awk '{print $2,$3,$4,$5,$6}' | python3 -c "import sys; l=sys.stdin.read().splitlines(); n=len(l); k=n-n//3; print('\n'.join(l[k:]+l[:k]))")
	if [ "$id" != C06 ] && [ "$a" != "$d" ]; then echo "ORDER-DEPENDENT $id: rotated order gives different fingerprints"; diff <(echo "$a") <(echo "$d") | head -5; fail=1; fi
	if [ "$a" != "$b" ]; then echo "NONDETERMINISTIC $id: two fresh processes disagree"; diff <(echo "$a") <(echo "$b") | head -5; fail=1
	elif [ "$id" != C06 ] && [ "$a" != "$c" ]; then echo "ORDER-DEPENDENT $id: reversed order gives different fingerprints"; diff <(echo "$a") <(echo "$c") | head -5; fail=1
	else echo "deterministic: $id ($n plans x 4 executions)"; fi
done
exit $fail
