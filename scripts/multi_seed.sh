#!/bin/bash
# multi_seed.sh "<seeds>" [ids...] — false-alarm hunt: every check, several VERIF_SEED values, unchanged tree, evidence untouched
seeds=${1:-"1 2 3"}; shift
ids=${*:-"C03 C04 C05 C06 C07 C08 C11 C14 C18 C19 C20"}
cd "$(dirname "${BASH_SOURCE[0]}")/.."
for sd in $seeds; do
	for id in $ids; do
		out=$(VERIF_SEED=$sd bash scripts/check.sh $id quick --no-evidence 2>/dev/null); st=$?
		echo "seed=$sd $id exit=$st $(echo "$out" | grep -E '^  class=|MACHINERY' | head -2 | tr '\n' ' ')"
	done
done
