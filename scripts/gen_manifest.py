#!/usr/bin/env python3
"""Regenerates /verif/MANIFEST.json from the table below (single source of truth for claims)."""
import json, os
V = "/verif"
NA = {
 "C01": "value of a parsed text is a pure function of the text: no schedule, fault, clock or history in the statement (its chunking, memory-safety and allocation-failure facets are decided under C03, C04, C08)",
 "C02": "serialization is a pure function of (tree, flags): nothing for a scheduler or fault injector to vary (allocation-failure facet under C08, delivery under C20)",
 "C09": "equality / deep-copy laws are relations over input trees: sequential, no fault or interleaving in the statement",
 "C10": "numeric coercions are pure piecewise functions of one value",
 "C12": "JSON-pointer resolution is a pure function of (tree, pointer string)",
 "C13": "patch application is a pure sequential function of (document, patch)",
 "C15": "acceptance is a pure function of (depth limit, document); stack safety under depth limits is exercised inside C04 but the exactness claim is not a simulation target",
 "C16": "strict/default acceptance is a pure function of (document, flags)",
 "C17": "traversal is a pure function of (tree, callback return table); the visitor allocates nothing and meets no fault or schedule",
}
CHECKS = {
 "C19": dict(level="exploration", ref="5.10",
   technique="deterministic simulation: seeded op histories on a printbuf vs byte-vector model, with injected allocation failures and a finite-capacity allocator",
   text="Seeded exploration of append/fill/printf/reset histories with allocation faults against a byte-array reference model, checked after every op under ASan/UBSan. Sampling, not proof: evidence for the explored histories.",
   note="Trusts the harness model (~80 lines), ASan redzones for out-of-allocation writes, and the allocator wrapper; struct printbuf fields are read directly (public header)."),
}
def main():
    checks = []
    for pid in sorted(CHECKS):
        c = CHECKS[pid]
        checks.append({
            "property_id": pid,
            "quick_cmd": f"bash scripts/check.sh {pid} quick",
            "thorough_cmd": f"bash scripts/check.sh {pid} thorough",
            "evidence_file": f"/verif/evidence/{pid}.json",
            "replay_cmd_template": f"bash scripts/check.sh {pid} --replay {{path}} -v",
            "engine": "jsim",
            "level_claimed": {"category": c["level"], "text": c["text"], "design_ref": "DESIGN.md §" + c["ref"]},
            "level_note": c["note"],
            "technique": c["technique"],
        })
    na = [{"property_id": k, "reason": v} for k, v in sorted(NA.items()) if k not in CHECKS]
    m = {
        "version": 1,
        "setup_cmd": "bash scripts/setup.sh",
        "hooks": {
            "guard": "JSON_C_VERIF",
            "enable": "no source hooks exist: every seam is a link-time wrapper (-Wl,--wrap=malloc,calloc,realloc,free,strdup,vasprintf,read,write,open,close,uselocale,newlocale,duplocale,freelocale,setlocale,arc4random) or a compiler flag (-fsanitize=thread with our own __tsan_* callbacks) applied to the unmodified sources by scripts/build.sh",
            "baseline_off_cmd": "cmake -S /repo -B /repo/_build -G Ninja && cmake --build /repo/_build && ctest --test-dir /repo/_build -j8 --timeout 900",
            "source_commits": [],
            "add_only": True,
        },
        "engines": [{"name": "jsim", "path": "/verif/sim", "serves_properties": sorted(CHECKS),
                     "kind_free_text": "own deterministic simulator: seeded plans (ops + attached faults), link-time seams for allocator/fd/locale/seed source, serialising thread scheduler over compiler-instrumented memory accesses, reference-model oracles, ddmin shrinking, replay files"}],
        "checks": checks,
        "not_applicable": na,
        "notes": "See DESIGN.md. Violations are reported as 'VIOLATION property=<id> replay=<path>'; exit 2 means the machinery itself failed (build error, non-deterministic replay).",
    }
    json.dump(m, open(os.path.join(V, "MANIFEST.json"), "w"), indent=1)
    print("wrote MANIFEST.json with", len(checks), "checks,", len(na), "not_applicable")
main()
