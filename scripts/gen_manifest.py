#!/usr/bin/env python3
"""Regenerates /verif/MANIFEST.json from the table below (single source of truth for claims)."""
import json, os
V = "/verif"
NA = {
 "C01": "value of a parsed text is a pure function of the text: no schedule, fault, clock or history in the statement (its chunking, memory-safety and allocation-failure facets are decided under C03, C04, C08)",
 "C02": "serialization is a pure function of (tree, flags): nothing for a scheduler or fault injector to vary (allocation-failure facet under C08, delivery under C20)",
 "C09": "equality / deep-copy laws are relations over input trees: sequential, no fault or interleaving in the statement",
 "C10": "numeric coercions are pure piecewise functions of one value",
 "C12": "JSON-pointer resolution is a pure function of (tree, pointer string)",
 "C13": "patch application is a pure sequential function of (document, patch)",
 "C15": "acceptance is a pure function of (depth limit, document); stack safety under depth limits is exercised inside C04 but the exactness claim is not a simulation target",
 "C16": "strict/default acceptance is a pure function of (document, flags)",
 "C17": "traversal is a pure function of (tree, callback return table); the visitor allocates nothing and meets no fault or schedule",
}
CHECKS = {
 "C18": dict(level="exploration", ref="5.9",
   technique="deterministic simulation: real pthreads serialised by a seeded scheduler at every compiler-instrumented memory access/atomic of json-c (own __tsan_* runtime), vector-clock happens-before race detection, quarantine of freed blocks, seed-source seam as yield point",
   text="ENABLE_THREADING build. W1: 2-4 threads run generated get/put/read sequences on 1-3 shared nodes; every node must be destroyed exactly once, by the last release, never while another thread still holds a reference, children of shared containers once, no use-after-free, no double free, and no unsynchronised conflicting access on json-c memory. W3: threads race on first use of the default hash in a fresh process with distinct seed candidates; every hash of a fixed key, early, late and afterwards, must be equal. W4: threads on disjoint trees get their single-thread results and never conflict. Random-switch and PCT schedules, sampled.",
   note="Sequentially consistent interleavings only; detector sees instrumented json-c code only; NDEBUG as shipped (assert-enabled build discussed in DESIGN.md); the volatile pre-read of the seed in lh_char_hash is exempt from the race oracle by design and checked semantically."),
 "C14": dict(level="exploration", ref="5.8",
   technique="deterministic simulation: ambient locale as drifting configuration (global/thread x C/comma-decimal, synthesized locale), recording wrappers around uselocale/newlocale/duplocale/freelocale/setlocale with injected ENOMEM, allocation failures; differential oracle vs C-locale reference pass",
   text="Two batches. Multi-thread batch (thread-simulator binary): 2-3 caller threads with different global/thread locales interleaved at every instrumented access while one of them is inside the parser; each thread's results must equal the C-locale reference and its printf probe must never change. Single-thread batch: every plan (parse calls reaching each outcome class, serialization with default and custom precision formats, format setter) runs twice: C-locale reference pass, then under one of the 6 locale configurations; observations must be byte-identical, the thread locale handle, global locale string and a printf probe must be unchanged after every library call on every return path, and every locale object created inside a call must be freed or consumed when it returns. duplocale/newlocale/malloc failures are attached to ops in the faulted batch.",
   note="Comma locale is synthesized offline with localedef from /verif/locale; glibc locale functions are real behind recording wrappers; ' grouping flag formats excluded."),
 "C20": dict(level="fault_enumeration", ref="5.11",
   technique="deterministic simulation with fault injection: simulated fd layer (read/write/open/close seams) with scripted per-call transfer sizes; errno injected at every call index, open failures, every allocation index; differential oracle vs in-memory serialization/parse",
   text="Per document, API (to_fd, to_file, to_file_ext, from_fd, from_fd_ex, from_file) and transfer-size schedule: unfaulted run, then an injected errno at every read/write call index, three open() errnos, and every allocation index inside the call. Write side: bytes received equal the in-memory serialization on success and are a strict prefix on failure, failures reported with a new message, descriptors balanced (to_file closes once, to_fd never). Read side: result equals the in-memory parse with the same depth limit; errors give NULL + message; nothing leaks. The descriptor answers fstat/lseek as a regular file or as a pipe, may be at a non-zero offset, may be descriptor 0; file names may be long or contain printf conversions; targets may exist already. Sampled over documents.",
   note="Exhaustive in the fault position per document/schedule (byte-wise schedules: first 200 call indices); write() never returning 0 is assumed; EINTR/EAGAIN count as failures as json-c defines them."),
 "C05": dict(level="exploration", ref="5.3",
   technique="deterministic simulation: seeded API histories over a handle pool with injected allocation failures; ownership-graph reference model; destruction observed at the allocator seam and by userdata callbacks",
   text="Seeded histories of constructors/parse/get/put/object and array mutation/set_userdata/set_serializer/deep_copy/json_pointer_set/json_patch_apply over 8 handles (shared nodes allowed, no cycles), fault-free and fault-injecting batches. After every op the set of nodes destroyed in that op must equal the set of nodes that lost their last owner in that op, put's return value must match the model count, callbacks run exactly once, failed ops leave ownership with the caller, survivors stay readable (ASan), and nothing is allocated after the final release.",
   note="Ownership graph re-read through the public API after every op (node identity = address while alive; ASan quarantine keeps addresses from being recycled within an op, and re-allocation is tracked); caller preconditions of §9.1 respected."),
 "C06": dict(level="exploration", ref="5.4",
   technique="deterministic simulation: seeded add/replace/delete/lookup histories with injected allocation failures over (a) the json_object API with both string hashes and a seam-supplied hash seed, (b) lh_table with tiny sizes and caller hashes; vector-of-pairs reference model",
   text="After every op: length, lookup of all 70 pool keys, and the key/value sequence through foreach, foreachC, iterator API, json_c_visit and serialization order equal the model; deleting the current key inside foreach (GNU and strict-ANSI variant of the macro, the latter from a -std=c99 unit of the harness), inside the visitor and inside lh_foreach_safe leaves the rest of the iteration intact; lookups also as membership tests with a NULL value pointer; replacement through json_patch keeps the position; failed adds change nothing; layer L additionally checks prev-links and explicit lh_table_resize. A new hash seed (process-level, via the arc4random seam) every 400 runs, recorded in the replay file.",
   note="Hash seed is process-wide: replay re-installs it in a fresh process. Caller preconditions (KEY_IS_NEW only for absent keys, static strings for CONSTANT_KEY, no adds inside foreach) respected."),
 "C07": dict(level="exploration", ref="5.5",
   technique="deterministic simulation: seeded array operation histories with injected growth/shrink allocation failures vs std::vector reference model; destruction callbacks as release observer",
   text="Seeded histories of add/put/insert/delete-range/shrink/sort/bsearch/get with indices inside, at and beyond the bounds (up to SIZE_MAX-adjacent) on arrays of initial capacity 0..70, fault-free and fault-injecting batches; after every op return code, length, every element (identity) over [0,len+2], and the set of elements released in that op equal the model.",
   note="Trusts the ~100-line vector model and the delete callbacks; finite-capacity allocator (64 MiB) turns absurd growth into clean failure; caller errors (negative shrink, wrong type) not generated."),
 "C11": dict(level="exploration", ref="5.7",
   technique="deterministic simulation: seeded set_string histories across the inline/heap threshold with injected allocation failure vs byte-vector model",
   text="Seeded histories over three string nodes with lengths crossing the inline-storage threshold in both directions, embedded NUL and non-UTF-8 bytes; after every op bytes, length, terminator, equality with a fresh node, deep copy and serialization round trip agree with the model; a failed set returns 0 and keeps the old bytes; after every mutating op the node is compared through all read accessors (coercions, type, three serializer flag sets, equality) with a node freshly created from the model bytes; sources that alias memory the node owns (its cached serialization, a slice of or a prefix of its own contents) are included; ASan + exact live-allocation accounting.",
   note="Trusts the byte-vector model, ASan and the allocator wrapper; serialization checked by round trip through json-c's own parser."),
 "C03": dict(level="exploration", ref="5.1",
   technique="deterministic simulation: seeded chunk schedules (transport cutting one byte stream into parse_ex calls) vs one-shot parse of the concatenation on a fresh parser",
   text="For each generated/mutated stream: every single cut position, seeded multi-cut partitions (with zero-length chunks) and byte-at-a-time delivery, all 8 flag combinations, several depth limits; after each call the (status, typed value, end position) triple is compared with one call on the same bytes by a fresh parser, and parsing resumes on the same parser after a success. Sampling over streams, exhaustive over single cuts per stream.",
   note="Differential oracle: the reference is json-c itself (one-shot); typed dump through the public API; ASan/UBSan active."),
 "C04": dict(level="exploration", ref="5.2",
   technique="deterministic simulation: seeded parser sessions (feed/abandon/reset/free histories over arbitrary bytes) with mirror-parser oracle and exact allocation accounting",
   text="Seeded sessions over random bytes, JSON soup, mutated texts, over-deep nesting and long tokens, abandoned at arbitrary chunk boundaries; checks outcome well-formedness, end position <= length, ASan/UBSan silence, empty live-allocation set after free, and that everything after a reset behaves exactly like on a brand-new parser (mirror).",
   note="Trusts ASan/UBSan for memory safety, exact-size chunk buffers for over-reads, the allocator wrapper for leak accounting; respects the documented reset-after-error precondition."),
 "C08": dict(level="fault_enumeration", ref="5.6",
   technique="deterministic simulation with fault injection: per generated workload every allocation index k<N is failed in turn (plus sampled pairs) behind the allocator seam; differential oracle vs the unfaulted execution",
   text="Exhaustive single-fault enumeration per workload over parse (3 modes), 12 constructors, object/array mutation at growth thresholds, set_string, deep_copy, serialization (flag sets, cached buffer), JSON pointer set/get, JSON patch, from_fd, tokener_new, double-format setter. Each faulted execution must give the unfaulted result or a clean documented failure, leave pre-existing trees unchanged and usable (retry succeeds), not consume caller arguments, and leak nothing. Sampled over workloads.",
   note="Exhaustive in the fault index per workload only; call sites named via frame-pointer walk; errno values and the exact parser error code after a memory failure are not part of the oracle."),
 "C19": dict(level="exploration", ref="5.10",
   technique="deterministic simulation: seeded op histories on a printbuf vs byte-vector model, with injected allocation failures and a finite-capacity allocator",
   text="Seeded exploration of append/fill/printf/reset histories with allocation faults against a byte-array reference model, checked after every op under ASan/UBSan. Sampling, not proof: evidence for the explored histories.",
   note="Trusts the harness model (~80 lines), ASan redzones for out-of-allocation writes, and the allocator wrapper; struct printbuf fields are read directly (public header)."),
}
def main():
    checks = []
    for pid in sorted(CHECKS):
        c = CHECKS[pid]
        checks.append({
            "property_id": pid,
            "quick_cmd": f"bash scripts/check.sh {pid} quick",
            "thorough_cmd": f"bash scripts/check.sh {pid} thorough",
            "evidence_file": f"/verif/evidence/{pid}.json",
            "replay_cmd_template": f"bash scripts/check.sh {pid} --replay {{path}} -v",
            "engine": "jsim",
            "level_claimed": {"category": c["level"], "text": c["text"], "design_ref": "DESIGN.md §" + c["ref"]},
            "level_note": c["note"],
            "technique": c["technique"],
        })
    na = [{"property_id": k, "reason": v} for k, v in sorted(NA.items()) if k not in CHECKS]
    for i in range(1, 21):
        pid = "C%02d" % i
        if pid not in CHECKS and pid not in NA:
            na.append({"property_id": pid, "reason": "check under construction in this session (planned in DESIGN.md §0); not claimed until it is registered here"})
    na.sort(key=lambda x: x["property_id"])
    m = {
        "version": 1,
        "setup_cmd": "bash scripts/setup.sh",
        "hooks": {
            "guard": "JSON_C_VERIF",
            "enable": "no source hooks exist: every seam is a link-time wrapper (-Wl,--wrap=malloc,calloc,realloc,free,strdup,vasprintf,read,write,open,close,uselocale,newlocale,duplocale,freelocale,setlocale,arc4random) or a compiler flag (-fsanitize=thread with our own __tsan_* callbacks) applied to the unmodified sources by scripts/build.sh",
            "baseline_off_cmd": "cmake -S /repo -B /repo/_build -G Ninja && cmake --build /repo/_build && ctest --test-dir /repo/_build -j8 --timeout 900",
            "source_commits": [],
            "add_only": True,
        },
        "engines": [{"name": "jsim", "path": "/verif/sim", "serves_properties": sorted(CHECKS),
                     "kind_free_text": "own deterministic simulator: seeded plans (ops + attached faults), link-time seams for allocator/fd/locale/seed source, serialising thread scheduler over compiler-instrumented memory accesses, reference-model oracles, ddmin shrinking, replay files"}],
        "checks": checks,
        "not_applicable": na,
        "notes": "See DESIGN.md. Violations are reported as 'VIOLATION property=<id> replay=<path>'; exit 2 means the machinery itself failed (build error, non-deterministic replay).",
    }
    json.dump(m, open(os.path.join(V, "MANIFEST.json"), "w"), indent=1)
    print("wrote MANIFEST.json with", len(checks), "checks,", len(na), "not_applicable")
main()
