#!/bin/bash
# eval_benign.sh <tier> [dir...]  : runs EVERY registered check against each behaviour-preserving change under benign/
# (scratch worktree via try_seeded.sh; /repo is never touched).  Any DETECTED line is a false alarm of the machinery.
tier=${1:-quick}; shift || true
here=$(dirname "${BASH_SOURCE[0]}")
[ $# -gt 0 ] || set -- "$here"/../benign/*/
ids=${BENIGN_IDS:-$(python3 -c "import json;print(' '.join(c['property_id'] for c in json.load(open('$here/../MANIFEST.json'))['checks']))")}
export KEEP_TRY_REPO=1
bad=0
for d in "$@"; do
	out=$(bash "$here/try_seeded.sh" "$d/patch.diff" "$tier" $ids)
	if echo "$out" | grep -qv "^MISSED"; then
		bad=1
		echo "== $d: FALSE ALARM / ERROR"; echo "$out" | grep -v "^MISSED" | cut -c1-220
	else
		echo "== $d: quiet ($(echo "$out" | wc -l) checks)"
	fi
done
git -C /repo worktree remove --force "${TRY_REPO:-/tmp/jsim-try-repo}" 2>/dev/null
exit $bad
