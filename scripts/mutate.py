#!/usr/bin/env python3
"""mutate.py — unbiased sensitivity measurement: small syntactic mutants of json-c, each run against the quick checks that
cover the mutated file (scratch worktree, never /repo).  A mutant the checks miss is then built and run against json-c's own
test suite: only mutants that ALSO pass the 25 tests are interesting survivors (to be triaged by hand: equivalent mutant,
behaviour outside the claimed properties, or a gap in a check).

usage: mutate.py <seed> <count> [file.c ...]     results appended to $OUT (default /tmp/jsim-mutants.jsonl)
"""
import json, os, random, re, subprocess, sys, time

V = os.environ.get("VERIF_DIR") or os.path.dirname(os.path.dirname(os.path.abspath(__file__)))
REPO = "/repo"
T = os.environ.get("TRY_REPO", "/tmp/jsim-mut-repo")
OUT = os.environ.get("OUT", "/tmp/jsim-mutants.jsonl")

CHECKS = {
    "json_tokener.c": ["C04", "C03", "C08", "C14", "C20"],
    "printbuf.c": ["C19", "C04", "C08", "C20"],
    "arraylist.c": ["C07", "C05", "C08"],
    "linkhash.c": ["C06", "C05", "C08", "C18"],
    "json_util.c": ["C20", "C04", "C08"],
    "json_object.c": ["C05", "C06", "C07", "C11", "C08", "C14", "C18", "C20"],
    "json_pointer.c": ["C05", "C08"],
    "json_patch.c": ["C05", "C08"],
}
# function name prefixes whose bodies belong to properties that are NOT claimed (pure functions): mutants there are skipped
SKIP_FUNCS = re.compile(r"json_object_(equal|get_int|get_int64|get_uint64|get_double|get_boolean|int_inc|set_int|set_int64|set_uint64|set_double|set_boolean)|"
                        r"json_array_equal|json_object_all_values_equal|json_type_to_name|json_object_to_json_string_length|json_c_version|_json_c_strerror|"
                        r"json_object_userdata_to_json_string|json_tokener_error_desc|json_util_get_last_err|json_object_array_bsearch")

RULES = [
    (r"<=", "<"), (r">=", ">"), (r"(?<![<>=!-])<(?![<=])", "<="), (r"(?<![<>=!-])>(?![>=])", ">="),
    (r"==", "!="), (r"!=", "=="), (r"&&", "||"), (r"\|\|", "&&"),
    (r"\+ 1\b", "+ 0"), (r"- 1\b", "- 0"), (r"\+ 1\b", "+ 2"), (r"\+\+", "--"), (r"--", "++"),
    (r"\b0\b", "1"), (r"\b1\b", "0"), (r"\b1\b", "2"), (r"\breturn -1;", "return 0;"), (r"\breturn 0;", "return -1;"),
    (r"\breturn NULL;", "return (void *)0 + 0;"),  # placeholder no-op (dropped below)
    (r"\+=", "-="), (r"-=", "+="), (r"\* 2\b", "* 1"), (r"/ 2\b", "/ 1"), (r"<<", ">>"),
    ("DELETE", None),
]


def functions(lines):
    """map line index -> enclosing function name (crude: a line at column 0 containing '(' followed by a '{' line)"""
    cur, out, depth = None, [], 0
    name = None
    for i, l in enumerate(lines):
        if depth == 0:
            m = re.match(r"^[A-Za-z_].*?\b([A-Za-z_][A-Za-z0-9_]*)\s*\(", l)
            if m and not l.rstrip().endswith(";"):
                name = m.group(1)
        depth += l.count("{") - l.count("}")
        out.append(name if depth > 0 else None)
    return out


def candidates(path):
    lines = open(path).read().split("\n")
    fn = functions(lines)
    cands = []
    in_comment = False
    for i, l in enumerate(lines):
        s = l.strip()
        if in_comment:
            if "*/" in s:
                in_comment = False
            continue
        if s.startswith("/*"):
            if "*/" not in s:
                in_comment = True
            continue
        if not fn[i] or SKIP_FUNCS.search(fn[i]) or s.startswith(("//", "*", "#", "case ", "default:")) or not s:
            continue
        if "MC_DEBUG" in s or "MC_ERROR" in s or "assert(" in s or "_set_err" in s or "_json_c_set_last_err" in s or "json_abort" in s:
            continue
        code = re.sub(r'"(\\.|[^"\\])*"', '""', l)
        code = re.sub(r"'(\\.|[^'\\])'", "' '", code)
        code = code.split("//")[0]
        for ri, (pat, rep) in enumerate(RULES):
            if pat == "DELETE":
                if re.match(r"^\s*[A-Za-z_>*()\[\].-]+(\[[^\]]*\])?\s*(=|\+=|-=|\+\+|--)[^=].*;\s*$", l) or re.match(r"^\s*[a-z_]+\(.*\);\s*$", l):
                    if "return" not in l and "va_end" not in l and "va_start" not in l:
                        cands.append((i, ri, None))
                continue
            if rep.startswith("return (void"):
                continue
            for m in re.finditer(pat, code):
                cands.append((i, ri, m.start()))
    return lines, fn, cands


def sh(cmd, timeout=3600, env=None):
    e = dict(os.environ)
    if env:
        e.update(env)
    try:
        p = subprocess.run(cmd, shell=True, stdout=subprocess.PIPE, stderr=subprocess.STDOUT, timeout=timeout, env=e, text=True)
        return p.returncode, p.stdout
    except subprocess.TimeoutExpired:
        return 124, "timeout"


def main():
    seed, count = int(sys.argv[1]), int(sys.argv[2])
    files = sys.argv[3:] or list(CHECKS)
    rng = random.Random(seed)
    if not os.path.exists(os.path.join(T, ".git")):
        sh(f"git -C {REPO} worktree prune; git -C {REPO} worktree add -q --detach {T} HEAD")
    done = 0
    while done < count:
        f = rng.choice(files)
        sh(f"git -C {T} checkout -q -- .")
        path = os.path.join(T, f)
        lines, fn, cands = candidates(path)
        if not cands:
            continue
        i, ri, pos = rng.choice(cands)
        pat, rep = RULES[ri]
        old = lines[i]
        if pat == "DELETE":
            new = re.match(r"^\s*", old).group(0) + ";"
            desc = "delete statement"
        else:
            new = old[:pos] + re.sub(pat, rep, old[pos:], count=1)
            desc = f"{pat} -> {rep}"
        if new == old:
            continue
        lines[i] = new
        open(path, "w").write("\n".join(lines))
        rec = {"file": f, "line": i + 1, "function": fn[i], "rule": desc, "old": old.strip(), "new": new.strip(), "seed": seed}
        t0 = time.time()
        killed = None
        for cid in CHECKS[f]:
            rc, out = sh(f"bash {V}/scripts/check.sh {cid} quick --no-evidence", env={"VERIF_REPO": T}, timeout=1800)
            if rc == 2 and "BUILD-ERROR" in out:
                killed = "does-not-compile"
                break
            if rc != 0:
                cls = re.findall(r"class=(\S+)", out)
                killed = f"{cid}:{cls[0] if cls else 'exit%d' % rc}"
                break
        rec["killed_by"] = killed
        if killed is None:
            rc, out = sh(f"cd {T} && cmake -S . -B _b -G Ninja -DCMAKE_BUILD_TYPE=Debug >/dev/null 2>&1 && cmake --build _b 2>&1 | tail -3 && ctest --test-dir _b -j8 --timeout 300 2>&1 | grep -E 'tests passed|rror' | head -5", timeout=2400)
            m = re.search(r"(\d+)% tests passed, (\d+) tests failed", out)
            rec["tests"] = "pass" if (m and m.group(2) == "0") else ("fail" if m else "build-or-run-error")
        rec["secs"] = round(time.time() - t0)
        if killed != "does-not-compile":
            done += 1
        open(OUT, "a").write(json.dumps(rec) + "\n")
        print(json.dumps(rec), flush=True)
    sh(f"git -C {T} checkout -q -- .")


if __name__ == "__main__":
    main()
