#!/bin/bash
# eval_all_checks.sh <tier> <dir>...  : like eval_seeded.sh but runs EVERY registered check against each change
tier=${1:-quick}; shift
here=$(dirname "${BASH_SOURCE[0]}")
ids=$(python3 -c "import json;print(' '.join(c['property_id'] for c in json.load(open('$here/../MANIFEST.json'))['checks']))")
export KEEP_TRY_REPO=1
for d in "$@"; do
	echo "== $d (claims $(python3 -c "import json;print(json.load(open('$d/meta.json')).get('property','?'))"))"
	bash "$here/try_seeded.sh" "$d/patch.diff" "$tier" $ids | grep -v "^MISSED" | cut -c1-220
done
git -C /repo worktree remove --force "${TRY_REPO:-/tmp/jsim-try-repo}" 2>/dev/null
true
