#!/usr/bin/env python3
"""Forgotten-seam detector: lists libc symbols json-c references that are a source of
nondeterminism or a failing resource and are NOT behind one of the simulator's link-time
wrappers.  Only warns (result recorded for the evidence files); never fails the build."""
import sys, json, os
undef = [l.strip() for l in open(sys.argv[1]) if l.strip()]
variant = sys.argv[3]
wrapped = set("malloc calloc realloc free strdup vasprintf read write open close uselocale newlocale "
              "duplocale freelocale setlocale arc4random arc4random_buf arc4random_uniform getrandom getentropy fstat fstat64 lseek lseek64".split())
# resources / nondeterminism sources that would need a seam if json-c started using them
risky = set("""posix_memalign aligned_alloc memalign valloc strndup asprintf reallocarray mmap munmap
fopen fdopen fread fwrite fclose fgets getline open64 openat creat pread pwrite readv writev fsync
rand random srand srandom rand_r time clock clock_gettime gettimeofday getpid
pthread_create pthread_mutex_lock pthread_mutex_unlock localeconv nl_langinfo __open_2 __open64_2
__read_chk""".split())
found_risky = sorted(s for s in undef if s in risky and s not in wrapped)
used_wrapped = sorted(s for s in undef if s in wrapped)
out = {"variant": variant, "wrapped_and_used": used_wrapped, "unwrapped_risky": found_risky}
json.dump(out, open(os.path.join(os.path.dirname(sys.argv[1]), "seam_audit.json"), "w"))
if found_risky:
    print("SEAM-AUDIT WARNING (%s): json-c references unwrapped nondeterminism/resource symbols: %s"
          % (variant, " ".join(found_risky)), file=sys.stderr)
sys.exit(0)
