#!/bin/bash
# eval_seeded.sh <tier> <dir>...   each dir holds patch.diff + meta.json (property in meta.json); prints one verdict line per dir
tier=${1:-quick}; shift
for d in "$@"; do
	id=$(python3 -c "import json;print(json.load(open('$d/meta.json'))['property'])")
	printf "%s " "$d"
	bash "$(dirname "${BASH_SOURCE[0]}")/try_seeded.sh" "$d/patch.diff" "$tier" "$id" | tr '\n' ' '
	echo
done
