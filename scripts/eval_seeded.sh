#!/bin/bash
# eval_seeded.sh <tier> <dir>...   each dir holds patch.diff + meta.json (property in meta.json); prints one verdict line per dir
tier=${1:-quick}; shift
here=$(dirname "${BASH_SOURCE[0]}")
export KEEP_TRY_REPO=1
for d in "$@"; do
	# the check that catches it: the property it names, or (meta.detected_by) the sibling property whose clause it really breaks
	id=$(python3 -c "import json;m=json.load(open('$d/meta.json'));print(m.get('detected_by') or m['property'])")
	printf "%s " "$d"
	bash "$here/try_seeded.sh" "$d/patch.diff" "$tier" "$id" | tr '\n' ' '
	echo
done
git -C /repo worktree remove --force "${TRY_REPO:-/tmp/jsim-try-repo}" 2>/dev/null
# the checks must rebuild from /repo again next time
true
