#!/bin/bash
# setup: configure-only cmake runs (threading off / on), synthesized comma-decimal locale, harness + first build
. "$(dirname "${BASH_SOURCE[0]}")/common.sh"
ensure_cfg cfg &
p1=$!
ensure_cfg cfg-thr -DENABLE_THREADING=ON &
p2=$!
wait $p1; wait $p2
if [ -f "$V/locale/build_locale.sh" ]; then bash "$V/locale/build_locale.sh"; fi
for v in ${VERIF_VARIANTS:-asan thr}; do
	if [ "$v" = thr ] && [ ! -f "$V/sim/simtsan.c" ]; then continue; fi
	bash "$V/scripts/build.sh" "$v"
done
echo "setup ok"
