#!/bin/bash
# run every registered check at a tier (default quick) and validate the evidence files against the schema
tier=${1:-quick}
cd "$(dirname "${BASH_SOURCE[0]}")/.."
export VERIF_DIR=$(pwd)
ids=$(python3 -c "import json;print(' '.join(c['property_id'] for c in json.load(open('MANIFEST.json'))['checks']))")
rc=0
for id in $ids; do
	start=$(date +%s)
	out=$(bash scripts/check.sh $id $tier 2>&1); st=$?
	echo "== $id exit=$st $(( $(date +%s) - start ))s :: $(echo "$out" | grep '^jsim: C' | tail -1)"
	echo "$out" | grep -E "^VIOLATION|^KNOWN-FINDING|^MACHINERY|^warning" | head -5
	[ $st -ne 0 ] && rc=1
done
python3-vt - <<'PY'
import json,jsonschema,sys
import os
V=os.environ.get('VERIF_DIR','/verif')
m=json.load(open(V+'/MANIFEST.json'))
jsonschema.validate(m,json.load(open('/root/.vp/MANIFEST.schema.json')))
sch=json.load(open('/root/.vp/EVIDENCE.schema.json'))
for c in m['checks']:
    try:
        e=json.load(open(c['evidence_file'].replace('/verif', V, 1))); jsonschema.validate(e,sch)
        assert e['level']==c['level_claimed']['category'], "level mismatch"
        print("evidence ok:",c['property_id'],e['tier'],e['coverage']['evaluations'],e['coverage']['distinct_nontrivial'],"violations",e.get('violations'))
    except Exception as ex:
        print("EVIDENCE PROBLEM",c['property_id'],str(ex)[:200]); sys.exit(1)
PY
exit $rc
