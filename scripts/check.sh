#!/bin/bash
# check.sh <property> <quick|thorough>            run the check (rebuilds json-c from /repo's working tree first)
# check.sh <property> --replay <file> [-v]        replay a reported violation
. "$(dirname "${BASH_SOURCE[0]}")/common.sh"
id=${1:?property id}; shift
export LOCPATH=$B/locale
[ -f "$B/locale/vf_COMMA/LC_NUMERIC" ] || bash "$V/locale/build_locale.sh" 1>&2 || true

build() {
	if ! bash "$V/scripts/build.sh" "$1" 1>&2; then
		echo "BUILD-ERROR: cannot build the simulator ($1) against $REPO" >&2
		exit 2
	fi
}

# replay: the file names the batch it belongs to
if [ "${1:-}" = "--replay" ]; then
	file=${2:?replay file}
	pid=$(awk '$1=="prop"{print $2; exit}' "$file" 2>/dev/null)
	case "$pid" in
	C18|C14T) variant=thr ;;
	*) variant=asan ;;
	esac
	grep -q "^cfg assert_build 1" "$file" 2>/dev/null && variant=thrassert
	build "$variant"
	exec "$B/jsim-$variant" "$pid" "$@"
fi

case "$id" in
C18)
	# two batches: the shipped configuration (NDEBUG) and the assertion-enabled threaded build
	build thr
	"$B/jsim-thr" C18 "$@"; rc1=$?
	build thrassert
	tier=quick; for x in "$@"; do [ "$x" = thorough ] && tier=thorough; done
	[ "${VERIF_TIER:-}" = thorough ] && tier=thorough
	extra="--evidence-name C18A --runs $([ $tier = thorough ] && echo 600000 || echo 20000)"
	for x in "$@"; do [ "$x" = "--no-evidence" ] && extra="--runs $([ $tier = thorough ] && echo 600000 || echo 20000)"; done
	"$B/jsim-thrassert" C18 "$@" $extra; rc2=$?
	python3 - <<'PY'
import json, os
import os as _os
V = _os.environ.get("VERIF_DIR", "/verif")
a, b = V + "/evidence/C18.json", V + "/evidence/C18A.json"
try:
    if os.path.exists(b):
        ea, eb = json.load(open(a)), json.load(open(b))
        cb = eb["coverage"]
        ea["coverage"]["assert_enabled_batch"] = {k: cb[k] for k in ("evaluations", "distinct_nontrivial", "steps", "probes", "nontrivial_runs", "runs_per_hour", "violation_reports") if k in cb}
        ea["coverage"]["assert_enabled_batch"]["configuration"] = "ENABLE_THREADING=ON, assertions enabled (no NDEBUG)"
        ea["violations"] = int(ea.get("violations", 0)) + int(eb.get("violations", 0))
        ea["wall_s"] = float(ea.get("wall_s", 0)) + float(eb.get("wall_s", 0))
        json.dump(ea, open(a, "w"), indent=1)
        os.remove(b)
except Exception as ex:
    print("note: could not merge assert-enabled evidence:", ex)
PY
	if [ $rc1 -eq 2 ] || [ $rc2 -eq 2 ]; then exit 2; fi
	if [ $rc1 -ne 0 ] || [ $rc2 -ne 0 ]; then exit 1; fi
	exit 0
	;;
C14)
	# two batches: single-thread (ASan/UBSan binary) and multi-thread (thread simulator binary)
	build asan
	"$B/jsim-asan" C14 "$@"; rc1=$?
	build thr
	"$B/jsim-thr" C14T "$@"; rc2=$?
	python3 - <<'PY'
import json, os
import os as _os
V = _os.environ.get("VERIF_DIR", "/verif")
a, b = V + "/evidence/C14.json", V + "/evidence/C14T.json"
try:
    ea, eb = json.load(open(a)), json.load(open(b))
    cb = eb["coverage"]
    ea["coverage"]["multithread_batch"] = {k: cb[k] for k in ("evaluations", "distinct_nontrivial", "rule", "samples", "steps", "probes", "probes_at_zero",
                                           "nontrivial_runs", "logical_steps", "runs_per_hour", "components_real", "components_stubbed", "violation_reports") if k in cb}
    ea["coverage"]["multithread_batch"]["wall_s"] = eb.get("wall_s")
    ea["violations"] = int(ea.get("violations", 0)) + int(eb.get("violations", 0))
    ea["wall_s"] = float(ea.get("wall_s", 0)) + float(eb.get("wall_s", 0))
    json.dump(ea, open(a, "w"), indent=1)
    os.remove(b)
except Exception as ex:
    print("note: could not merge multi-thread evidence:", ex)
PY
	if [ $rc1 -eq 2 ] || [ $rc2 -eq 2 ]; then exit 2; fi
	if [ $rc1 -ne 0 ] || [ $rc2 -ne 0 ]; then exit 1; fi
	exit 0
	;;
*)
	build "${VERIF_VARIANT:-asan}"
	exec "$B/jsim-${VERIF_VARIANT:-asan}" "$id" "$@"
	;;
esac
