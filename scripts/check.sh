#!/bin/bash
# check.sh <property> <quick|thorough>            run the check (rebuilds json-c from /repo's working tree first)
# check.sh <property> --replay <file> [-v]        replay a reported violation
. /verif/scripts/common.sh
id=${1:?property id}; shift
case "$id" in
C18|C14T) variant=thr ;;
*) variant=asan ;;
esac
variant=${VERIF_VARIANT:-$variant}
if ! bash "$V/scripts/build.sh" "$variant" 1>&2; then
	echo "BUILD-ERROR: cannot build the simulator against $REPO" >&2
	exit 2
fi
export LOCPATH=$B/locale
exec "$B/jsim-$variant" "$id" "$@"
