#!/bin/bash
# replay_roundtrip.sh [seeded dirs...] — for each seeded change: apply to a scratch worktree, run the quick check of its property,
# take the replay file named on the VIOLATION line and run MANIFEST's replay command on it: the same violation class must come back.
cd "$(dirname "${BASH_SOURCE[0]}")/.."
V=$(pwd)
T=${TRY_REPO:-/tmp/jsim-try-repo}
[ $# -gt 0 ] || set -- seeded/C03-9 seeded/C04-9 seeded/C05-10 seeded/C06-10 seeded/C07-10 seeded/C08-17 seeded/C11-9 seeded/C14-11 seeded/C18-11 seeded/C19-10 seeded/C20-11
git -C /repo worktree prune
[ -e "$T/.git" ] || git -C /repo worktree add -q --detach "$T" HEAD || exit 2
bad=0
for d in "$@"; do
	id=$(python3 -c "import json;print(json.load(open('$d/meta.json'))['property'])")
	git -C "$T" checkout -q -- .
	git -C "$T" apply "$V/$d/patch.diff" || { echo "$d: patch does not apply"; bad=1; continue; }
	out=$(VERIF_REPO=$T bash scripts/check.sh "$id" quick --no-evidence 2>/dev/null)
	rp=$(echo "$out" | grep -m1 "^VIOLATION" | sed 's/.*replay=//')
	cls=$(echo "$out" | grep -m1 "^  class=" | awk '{print $1}' | sed 's/^class=//')
	if [ -z "$rp" ]; then echo "$d: no violation reported"; bad=1; continue; fi
	r=$(VERIF_REPO=$T bash scripts/check.sh "$id" --replay "$rp" -v 2>&1 | grep "REPLAY-RESULT" | tail -1)
	if echo "$r" | grep -q "class=$cls "; then echo "$d: $cls reproduced from $rp"; else echo "$d: $cls NOT reproduced: $r"; bad=1; fi
done
git -C "$T" checkout -q -- .
git -C /repo worktree remove --force "$T" 2>/dev/null
exit $bad
