#!/bin/bash
# try_seeded.sh <patch.diff> <tier> <property ids...>
# applies a seeded change to a SCRATCH WORKTREE of /repo (never to /repo itself), points the checks at it (VERIF_REPO),
# runs them without touching the evidence files, and reverts the worktree.  KEEP_TRY_REPO=1 keeps the worktree for the next call.
patch=$(readlink -f "${1:?patch}"); tier=${2:-quick}; shift 2
cd "$(dirname "${BASH_SOURCE[0]}")/.."
T=${TRY_REPO:-/tmp/jsim-try-repo}
if [ ! -d "$T/.git" ] && [ ! -f "$T/.git" ]; then
	git -C /repo worktree prune
	git -C /repo worktree add -q --detach "$T" HEAD || { echo "cannot create scratch worktree"; exit 2; }
fi
git -C "$T" checkout -q --detach "$(git -C /repo rev-parse HEAD)" 2>/dev/null
git -C "$T" checkout -q -- .
if ! git -C "$T" apply "$patch"; then echo "patch does not apply"; exit 2; fi
cleanup() { git -C "$T" checkout -q -- . ; [ -n "${KEEP_TRY_REPO:-}" ] || git -C /repo worktree remove --force "$T"; }
trap cleanup EXIT
export VERIF_REPO=$T
for id in "$@"; do
	start=$(date +%s)
	out=$(bash scripts/check.sh "$id" "$tier" --no-evidence 2>/dev/null); st=$?
	cls=$(echo "$out" | grep -E "^  class=" | head -3 | sed 's/ run_index.*//' | tr '\n' ' ')
	case $st in
	0) verdict=MISSED ;;
	1) verdict=DETECTED ;;
	*) verdict="ERROR($st)" ;;
	esac
	echo "$verdict $id $(( $(date +%s) - start ))s $cls"
	if [ $st -ge 2 ]; then echo "$out" | grep -E "MACHINERY|BUILD" | head -3; fi
done
