#!/bin/bash
# try_seeded.sh <patch.diff> <tier> <property ids...>
# applies a seeded change to /repo, runs the named checks without touching the evidence files, reverts /repo.
patch=${1:?patch}; tier=${2:-quick}; shift 2
cd "$(dirname "${BASH_SOURCE[0]}")/.."
if ! git -C /repo diff --quiet; then echo "refusing: /repo has uncommitted changes"; exit 2; fi
if ! git -C /repo apply "$patch"; then echo "patch does not apply"; exit 2; fi
trap 'git -C /repo checkout -- . ' EXIT
for id in "$@"; do
	start=$(date +%s)
	out=$(bash scripts/check.sh "$id" "$tier" --no-evidence 2>/dev/null); st=$?
	cls=$(echo "$out" | grep -E "^  class=" | head -3 | sed 's/ run_index.*//' | tr '\n' ' ')
	case $st in
	0) verdict=MISSED ;;
	1) verdict=DETECTED ;;
	*) verdict="ERROR($st)" ;;
	esac
	echo "$verdict $id $(( $(date +%s) - start ))s $cls"
	if [ $st -ge 2 ]; then echo "$out" | grep -E "MACHINERY|BUILD" | head -3; fi
done
